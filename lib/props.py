"""Per-property case generators. Each returns {'cases': [...], 'rule': str, 'exhaustive': bool, 'dist': {...}};
a case is {'id', 'lines', 'key', 'nontrivial'}. Register numbers count the 'r' lines of the case."""
import collections, itertools, random
from . import gen
from .gen import pe, hexname, val_tokens, set_tokens


class Case:
    def __init__(self, cid):
        self.id = cid; self.lines = []; self.nreg = 0
    def r(self, text):
        self.lines.append("r " + text); self.nreg += 1; return self.nreg - 1
    def q(self, text):
        self.lines.append("q " + text)
    def done(self, key, nontrivial):
        return {"id": self.id, "lines": self.lines, "key": key, "nontrivial": bool(nontrivial)}


def three_reps(c, e):
    r0 = c.r("expr " + pe(e)); r1 = c.r("conv T %d" % r0); r2 = c.r("conv B %d" % r0)
    return [r0, r1, r2]


LEAVES = [gen.L("a"), gen.L("b"), gen.L("c"), gen.C(0), gen.C(1)]


WIDE_NAMES = ["x%d" % i for i in range(1, 13)]


def sparse_wide(rng, nv, cnf=False):
    """an asymmetric function of exactly nv declared inputs (x1..x<nv>): a sparse random DNF / CNF of 2-5 clauses,
    padded with (v | !v) for the variables it does not use. Wide enough to cross machine-word boundaries of rows."""
    vs = WIDE_NAMES[:nv]
    clauses = []
    for _ in range(rng.randint(2, 5)):
        ls = rng.sample(vs, rng.randint(1, 4))
        clauses.append([gen.L(x) if rng.random() < 0.6 else gen.Nn(gen.L(x)) for x in ls])
    used = {l[1] if l[0] == "L" else l[1][1] for cl in clauses for l in cl}
    pad = [gen.O([gen.L(x), gen.Nn(gen.L(x))]) for x in vs if x not in used]
    e = gen.A([gen.O(cl) for cl in clauses]) if cnf else gen.O([gen.A(cl) for cl in clauses])
    return gen.A([e] + pad) if pad else e


def gen_C02(tier, rng):
    cases = []; dist = collections.Counter()
    universe = ["a", "b", "c", "z"]
    all_vals = list(gen.partial_valuations(universe))
    memo = {}
    full_upto = 3 if tier == "quick" else 4
    sampled = [4] if tier == "quick" else [5]
    n = 0
    def add(e, vals, tag):
        nonlocal n
        c = Case("c02_%d" % n); n += 1
        regs = three_reps(c, e)
        ls = gen.lits(e)
        nt = False
        for v in vals:
            assigned = {x for x, _ in v}
            if ls - assigned and ls & assigned: nt = True
            for r in regs:
                for d in ("0", "1", "-"):
                    c.q("eval %d %s %s" % (r, d, val_tokens(v)))
        dist[tag] += 1
        cases.append(c.done(pe(e), nt))
    for s in range(1, full_upto + 1):
        for e in gen.enum_trees(s, LEAVES, 3, memo):
            add(e, all_vals, "size%d_all81" % s)
    for s in sampled:
        trees = gen.enum_trees(s, LEAVES, 3, memo)
        pick = trees if tier != "quick" and len(trees) < 3000 else rng.sample(trees, min(len(trees), 1500 if tier == "quick" else 6000))
        for e in pick:
            add(e, rng.sample(all_vals, 9), "size%d_sampled" % s)
    for _ in range(300 if tier == "quick" else 3000):
        names = gen.NAMES[: rng.randint(2, 8)]
        e = gen.rand_tree(rng, rng.randint(3, 7), names)
        vals = []
        for _ in range(8):
            vals.append([(x, rng.random() < 0.5) for x in names + ["z"] if rng.random() < 0.7])
        add(e, vals, "random")
    # the literal constructors (var / mk_literal) with names that a normalising helper would alter: blanks around the
    # name, case, the empty name; evaluated under the exact name, the trimmed / case-folded name and nothing
    odd = [" x", "x ", " x ", "\tx", "x\n", " ", "", "X", "x", "x y", "é ", "0", "true"]
    for k in range(0, len(odd), 4):
        c = Case("c02_lit%d" % k)
        for nm in odd[k:k + 4]:
            regs_ = [c.r("mkliteral E %s 1" % hexname(nm)), c.r("mkliteral E %s 0" % hexname(nm)), c.r("mkliteral B %s 1" % hexname(nm)), c.r("mkliteral B %s 0" % hexname(nm))]
            regs_.append(c.r("conv T %d" % regs_[0]))
            alts = [nm, nm.strip(), nm.lower(), nm.upper()]
            for r in regs_:
                c.q("obs %d" % r)
                for a_ in alts + [None]:
                    v = [] if a_ is None else [(a_, True)]
                    for d in ("0", "1", "-"): c.q("eval %d %s %s" % (r, d, val_tokens(v)))
        dist["literal_constructors"] += 1
        cases.append(c.done(c.id, True))
    # evaluation of objects that are the result of operation sequences
    def ap02(c, kinds, names):
        for i_ in range(len(kinds)):
            for _ in range(3):
                v = [(x, rng.random() < 0.5) for x in names + ["zz", "0p", "cq"] if rng.random() < 0.6]
                for d in ("0", "1", "-"): c.q("eval %d %s %s" % (i_, d, val_tokens(v)))
    hc = derived_cases("c02", tier, rng, 120, ap02); cases.extend(hc); dist["derived_objects"] += len(hc)
    # wide functions (7-10 inputs): row-index arithmetic beyond one word of rows, many unassigned inputs at once
    for nv in ([7, 8, 9, 10] if tier == "quick" else [7, 8, 9, 10, 11, 12]):
        for rep in range(3 if tier == "quick" else 10):
            e = sparse_wide(rng, nv, cnf=(rep % 2 == 1))
            vs = WIDE_NAMES[:nv]
            vals = [[(x, rng.random() < 0.5) for x in vs]]                                    # total
            for _ in range(7):
                pr = rng.choice([0.3, 0.6, 0.9])
                vals.append([(x, rng.random() < 0.5) for x in vs + ["zz"] if rng.random() < pr])   # partial, foreign name
            vals.append([])
            add(e, vals, "wide%d" % nv)
    return {"cases": cases, "exhaustive": True, "dist": dict(dist),
            "rule": "every expression tree with <= %d nodes over 3 names, constants and n-ary arities 0..3, in its expression, table and diagram form, under all 81 partial assignments of {a,b,c,z}, defaults 0/1 and checked mode; sampled larger trees and random trees up to 8 names; sparse asymmetric functions of 7-10 (12) inputs under total, partial and empty assignments; literals built by the helper constructors from names with blanks / other case / empty; a case is non-trivial when some assignment leaves an input unassigned and assigns another; distinct = distinct trees" % full_upto}


def gen_C05(tier, rng):
    cases = []; dist = collections.Counter()
    n = 0
    vs_all = ["a", "b", "c"]
    for nv in range(0, 4):
        vs = vs_all[:nv]
        forms = ["dnf", "cnf", "mix"] if (nv <= 2 or tier != "quick") else ["dnf"]
        for tv in gen.all_tvs(nv):
            for form in forms:
                e = gen.expr_of_tv(vs, tv, form)
                c = Case("c05_%d" % n); n += 1
                regs = three_reps(c, e)
                nt = False
                for v in gen.partial_valuations(vs + ["z"]):
                    fixed = {x for x, _ in v} & set(vs)
                    if fixed and set(vs) - fixed: nt = True
                    for r in regs:
                        k = c.r("restrict %d %s" % (r, val_tokens(v)))
                        c.q("obs %d" % k)
                dist["vars%d_%s" % (nv, form)] += 1
                cases.append(c.done("%s/%s/%s" % (nv, tv, form), nt))
    for _ in range(150 if tier == "quick" else 1500):
        names = gen.NAMES[: rng.randint(4, 7)]
        e = gen.rand_tree(rng, rng.randint(3, 6), names)
        c = Case("c05_%d" % n); n += 1
        regs = three_reps(c, e)
        for _ in range(6):
            v = [(x, rng.random() < 0.5) for x in names + ["z", "zz"] if rng.random() < 0.4]
            for r in regs:
                k = c.r("restrict %d %s" % (r, val_tokens(v)))
                c.q("obs %d" % k)
        dist["random"] += 1
        cases.append(c.done(pe(e), True))
    def ap05(c, kinds, names):
        for i_ in range(len(kinds)):
            for _ in range(2):
                v = [(x, rng.random() < 0.5) for x in names + ["zz", "0p", "cq"] if rng.random() < 0.4]
                k = c.r("restrict %d %s" % (i_, val_tokens(v))); c.q("obs %d" % k)
    hc = derived_cases("c05", tier, rng, 120, ap05); cases.extend(hc); dist["derived_objects"] += len(hc)
    return {"cases": cases, "exhaustive": True, "dist": dict(dist),
            "rule": "every truth function of <= 3 variables (as DNF, CNF and Shannon-with-constants expressions; quick: DNF only for 3 variables) in the three representations, restricted by every partial assignment of its inputs plus a foreign name (3^(n+1), the empty one included); random 4-7 input trees with random assignments; objects produced by random programs of operations, restricted again; non-trivial = some assignment fixes an input and leaves another; distinct = (function, shape)"}


GENERATORS = {"C02": gen_C02, "C05": gen_C05}


# ------------------------------------------------------------------ C01
def conv_paths(c, start_reg, start_kind, depth, obs=True):
    """all conversion paths of length <= depth from the start register; returns number of paths"""
    count = 0
    frontier = [(start_reg, start_kind)]
    for _ in range(depth):
        nxt = []
        for reg, k in frontier:
            for tgt in "ETB":
                if tgt == k: continue
                r = c.r("conv %s %d" % (tgt, reg))
                if obs: c.q("obs %d" % r)
                nxt.append((r, tgt)); count += 1
        frontier = nxt
    return count


def gen_C01(tier, rng):
    cases = []; dist = collections.Counter(); n = 0
    depth = 3 if tier == "quick" else 5
    for nv in range(0, 4):
        vs = ["a", "b", "c"][:nv]
        for tv in gen.all_tvs(nv):
            forms = ["dnf", "cnf", "mix"] if (nv <= 2 or tier != "quick") else [("dnf", "cnf", "mix")[int(tv, 2) % 3]]
            for form in forms:
                e = gen.expr_of_tv(vs, tv, form)
                c = Case("c01_%d" % n); n += 1
                r0 = c.r("expr " + pe(e)); c.q("obs %d" % r0)
                np_ = conv_paths(c, r0, "E", depth)
                dist["vars%d" % nv] += 1; dist["paths"] += np_
                cases.append(c.done("%d/%s/%s" % (nv, tv, form), len(set(tv)) > 1))
    # functions whose diagrams / normal forms are large: parities and threshold-like functions of 5-8 variables
    def xor_e(a, b): return gen.O([gen.A([a, gen.Nn(b)]), gen.A([gen.Nn(a), b])])
    for nv in ([5, 6, 7] if tier == "quick" else [5, 6, 7, 8, 9]):
        vs = gen.NAMES[:nv]
        par = gen.L(vs[0])
        for x in vs[1:]: par = xor_e(par, gen.L(x))
        maj = gen.O([gen.A([gen.L(x) for x in comb]) for comb in itertools.combinations(vs, (nv + 1) // 2)])
        mixed = gen.A([xor_e(gen.L(vs[0]), gen.L(vs[1])), gen.O([xor_e(gen.L(vs[2]), gen.L(vs[3])), gen.L(vs[4])])] + [xor_e(gen.L(vs[i]), gen.L(vs[(i + 2) % nv])) for i in range(nv - 5)])
        for nm, e in (("parity", par), ("notparity", gen.Nn(par)), ("majority", maj), ("mixed", mixed)):
            c = Case("c01_%d" % n); n += 1
            r0 = c.r("expr " + pe(e)); c.q("obs %d" % r0)
            for path in ("B", "BE", "BET", "BT", "BTE", "T", "TE", "BEB", "BEBE"):
                reg = r0
                for tgt in path:
                    reg = c.r("conv %s %d" % (tgt, reg)); c.q("obs %d" % reg)
            dist["wide_%s" % nm] += 1
            cases.append(c.done("%s%d" % (nm, nv), True))
    # asymmetric functions of many variables (sparse random DNF / CNF, 8-10 (12) variables): the position of every
    # variable in the row index matters, also beyond one machine word of rows
    wide_names = ["x%d" % i for i in range(1, 13)]
    for nv in ([8, 9, 10] if tier == "quick" else [8, 9, 10, 11, 12]):
        for rep in range(3 if tier == "quick" else 8):
            vs = wide_names[:nv]
            clauses = []
            for _ in range(rng.randint(2, 5)):
                lits_ = rng.sample(vs, rng.randint(1, 4))
                clauses.append([gen.L(x) if rng.random() < 0.6 else gen.Nn(gen.L(x)) for x in lits_])
            used = {l_[1] if l_[0] == "L" else l_[1][1] for cl in clauses for l_ in cl}
            # every variable is mentioned, the unused ones in a clause that is absorbed: (v | !v) keeps them declared
            pad = [gen.O([gen.L(x), gen.Nn(gen.L(x))]) for x in vs if x not in used]
            e = gen.O([gen.A(cl) for cl in clauses]) if rep % 2 == 0 else gen.A([gen.O(cl) for cl in clauses])
            if pad: e = gen.A([e] + pad)
            c = Case("c01_%d" % n); n += 1
            r0 = c.r("expr " + pe(e)); c.q("obs %d" % r0)
            for path in ("T", "TE", "TET", "BT", "BTE"):
                reg = r0
                for tgt in path:
                    reg = c.r("conv %s %d" % (tgt, reg)); c.q("obs %d" % reg)
            dist["wide_sparse_%d" % nv] += 1
            cases.append(c.done("sparse%d/%d" % (nv, rep), True))
    # one And / Or node with many operands (17-40 literals over as many variables): expression <-> diagram only (a table
    # would have 2^n rows); observed by evaluation at assignments that single out each operand, and by the weight
    for width in ([17, 20, 33, 40] if tier == "quick" else [17, 20, 31, 32, 33, 40, 48, 64, 65]):
        for cj in (True, False):
            vs = ["y%02d" % i for i in range(width)]
            pol = [rng.random() < 0.7 for _ in vs]
            lits_ = [gen.L(x) if p_ else gen.Nn(gen.L(x)) for x, p_ in zip(vs, pol)]
            e = gen.A(lits_) if cj else gen.O(lits_)
            c = Case("c01_%d" % n); n += 1
            r0 = c.r("expr " + pe(e)); r1 = c.r("conv B %d" % r0); r2 = c.r("conv E %d" % r1); r3 = c.r("conv B %d" % r2)
            sat = [(x, p_) for x, p_ in zip(vs, pol)]                # satisfies every literal
            vals = [sat, [(x, not b) for x, b in sat]]
            for i in list(range(width - 4, width)) + rng.sample(range(width), 4):
                vals.append([(x, (b if j != i else not b)) for j, (x, b) in enumerate(sat)])          # one literal flipped
                vals.append([(x, ((not b) if j != i else b)) for j, (x, b) in enumerate(sat)])        # one literal alone
            for v in vals:
                for r in (r0, r1, r2, r3): c.q("eval %d 0 %s" % (r, val_tokens(v)))
            c.q("weight %d %d" % (r1, 1 if cj else (1 << width) - 1)); c.q("weight %d %d" % (r3, 1 if cj else (1 << width) - 1))
            dist["nary_width_%d" % width] += 1
            cases.append(c.done("nary%d/%d" % (width, cj), True))
    # tables of 2^16 rows and more out of diagrams and expressions (17 inputs): beyond the practical reach of the extracted
    # model (minutes per conversion), so the conversion is not executed by the model (`bigconv`) and the observation is the
    # weight, whose expected value the generator knows in closed form -- a plain test oracle, not the model, for this size only
    for nv_, rep in ((17, 0), (17, 1)) if tier == "quick" else ((17, 0), (17, 1), (18, 0), (18, 1)):
        vs = ["y%02d" % i for i in range(nv_)]
        i_, j_, k_, l_ = (0, nv_ - 1, 3, 9) if rep == 0 else (nv_ - 1, 0, 5, nv_ - 2)
        # f = (v_i & !v_j) | (v_k & v_l), padded so that every variable is declared: weight = 2^n * (1/4 + 1/4 - 1/16)
        core = gen.O([gen.A([gen.L(vs[i_]), gen.Nn(gen.L(vs[j_]))]), gen.A([gen.L(vs[k_]), gen.L(vs[l_])])])
        e = gen.A([core] + [gen.O([gen.L(x), gen.Nn(gen.L(x))]) for x in vs])
        expected = (1 << nv_) * 7 // 16
        c = Case("c01_%d" % n); n += 1
        r0 = c.r("expr " + pe(e)); r1 = c.r("conv B %d" % r0); c.q("weight %d %d" % (r1, expected))
        r2 = c.r("bigconv T %d" % r1); c.q("weight %d %d" % (r2, expected))
        r3 = c.r("bigconv T %d" % r0); c.q("weight %d %d" % (r3, expected))
        dist["table_of_2^%d_rows" % nv_] += 1
        cases.append(c.done("big%d/%d" % (nv_, rep), True))
    # conversions of objects that are the RESULT of operations (restriction, quantifiers, substitution, connectives), not
    # only of freshly built ones: random programs as in C15, then every register converted to the two other representations
    for k_ in range(150 if tier == "quick" else 2000):
        c = Case("c01_h%d" % k_)
        names = gen.NAMES[: rng.randint(3, 5)]
        kinds = random_program(rng, c, rng.randint(5, 12), names, allow_tb=False)
        for i_, kk in enumerate(kinds):
            for tgt in "ETB":
                if tgt == kk or (kk == "T" and tgt == "B"): continue
                r_ = c.r("conv %s %d" % (tgt, i_)); c.q("obs %d" % r_)
        dist["derived_objects"] += 1
        cases.append(c.done("hist%d" % k_, True))
    for _ in range(120 if tier == "quick" else 1200):
        names = gen.NAMES[: rng.randint(2, 7)]
        e = gen.rand_tree(rng, rng.randint(2, 6), names)
        c = Case("c01_%d" % n); n += 1
        reg = c.r("expr " + pe(e)); k = "E"; c.q("obs %d" % reg)
        for _ in range(rng.randint(3, 10)):
            tgt = rng.choice([t for t in "ETB" if t != k])
            reg = c.r("conv %s %d" % (tgt, reg)); k = tgt
            c.q("obs %d" % reg)
        dist["random_chain"] += 1
        cases.append(c.done(pe(e), True))
    return {"cases": cases, "exhaustive": True, "dist": dict(dist),
            "rule": "every truth function of <= 3 variables as an expression (DNF/CNF/Shannon shapes; quick: one shape per 3-variable function) pushed through EVERY conversion path of length <= %d (2+4+..+2^k paths), full observation after each step; parity / majority / xor-rich functions of 5-7 (9) variables through the diagram paths (large diagrams and normal forms); sparse asymmetric DNF/CNF of 8-10 (12) variables through the table paths; single And/Or nodes of 17-40 (65) operands through expression <-> diagram (evaluation at assignments singling out each operand, weight); tables of 2^17 (2^18) rows out of diagrams and expressions, observed by their weight against a closed form (the model does not execute these); objects produced by random programs of operations converted to the other representations; random trees through random chains of 3-10 conversions; non-trivial = non-constant function; distinct = (function, shape)" % depth}


# ------------------------------------------------------------------ C03 / C04
def aligned_pairs(universe, maxv, rng=None, sample3=0):
    """(vs_f, tv_f, vs_g, tv_g) for every ordered pair of truth functions of <= maxv variables under every alignment"""
    out = []
    subsets = {k: list(itertools.combinations(universe, k)) for k in range(maxv + 1)}
    for nf in range(maxv + 1):
        for ng in range(maxv + 1):
            for vf in subsets[nf]:
                for vg in subsets[ng]:
                    for tf in gen.all_tvs(nf):
                        for tg in gen.all_tvs(ng):
                            out.append((list(vf), tf, list(vg), tg))
    return out


OPS2 = ["and", "or", "xor", "imply", "iff"]
FORMS = ["val", "ref", "assign"]


def gen_C03(tier, rng):
    cases = []; dist = collections.Counter(); n = 0
    universe = ["a", "b", "c"] if tier == "quick" else ["a", "b", "c", "d"]
    pairs = aligned_pairs(universe, 2)
    k = 0
    for vf, tf, vg, tg in pairs:
        c = Case("c03_%d" % n); n += 1
        f = gen.expr_of_tv(vf, tf, "dnf"); g = gen.expr_of_tv(vg, tg, "cnf" if n % 2 else "dnf")
        rf = three_reps(c, f); rg = three_reps(c, g)
        for ki, (x, y) in enumerate(zip(rf, rg)):
            for op in OPS2:
                for form in (["val"] if ki == 0 else (["val", "ref"] if ki == 1 else FORMS)):
                    r = c.r("op2 %s %s %d %d" % (op, form, x, y)); c.q("obs %d" % r)
            r = c.r("op1 not %d" % x); c.q("obs %d" % r)
        sf, sg = set(vf), set(vg)
        dist["align_%d_%d_%d" % (len(sf), len(sg), len(sf & sg))] += 1
        cases.append(c.done("%s:%s|%s:%s" % ("".join(vf), tf, "".join(vg), tg), (sf - sg) and (sg - sf)))
    # three-variable operands, sampled alignments; larger random operands
    u5 = ["a", "b", "c", "d", "e"]
    for _ in range(400 if tier == "quick" else 6000):
        vf = sorted(rng.sample(u5, 3)); vg = sorted(rng.sample(u5, rng.choice([2, 3])))
        tf = "".join(rng.choice("01") for _ in range(8)); tg = "".join(rng.choice("01") for _ in range(1 << len(vg)))
        c = Case("c03_%d" % n); n += 1
        rf = three_reps(c, gen.expr_of_tv(vf, tf, "dnf")); rg = three_reps(c, gen.expr_of_tv(vg, tg, "mix"))
        for x, y in zip(rf, rg):
            for op in OPS2:
                r = c.r("op2 %s %s %d %d" % (op, FORMS[k % 3], x, y)); k += 1
                c.q("obs %d" % r)
        dist["three_var_sampled"] += 1
        cases.append(c.done("%s:%s|%s:%s" % ("".join(vf), tf, "".join(vg), tg), set(vf) - set(vg) and set(vg) - set(vf)))
    for _ in range(60 if tier == "quick" else 600):
        names = gen.NAMES[: rng.randint(5, 8)]
        f = gen.rand_tree(rng, 5, rng.sample(names, rng.randint(3, len(names))))
        g = gen.rand_tree(rng, 5, rng.sample(names, rng.randint(3, len(names))))
        c = Case("c03_%d" % n); n += 1
        rf = three_reps(c, f); rg = three_reps(c, g)
        for x, y in zip(rf, rg):
            for op in OPS2:
                r = c.r("op2 %s %s %d %d" % (op, FORMS[k % 3], x, y)); k += 1
                c.q("obs %d" % r)
        dist["random_large"] += 1
        cases.append(c.done(pe(f) + "|" + pe(g), True))
    # operands that are the result of operation sequences: every connective and call form between registers of one kind
    def ap03(c, kinds, names):
        byk = collections.defaultdict(list)
        for i_, kk in enumerate(kinds): byk[kk].append(i_)
        for kk, regs_ in byk.items():
            pairs_ = [(x, y) for x in regs_ for y in regs_]
            rng.shuffle(pairs_)
            for x, y in pairs_[:5]:
                op = rng.choice(OPS2)
                r = c.r("op2 %s %s %d %d" % (op, rng.choice(FORMS) if op in ("and", "or", "xor") else "val", x, y)); c.q("obs %d" % r)
            for x in regs_[-2:]:
                r = c.r("op1 not %d" % x); c.q("obs %d" % r)
    hc = derived_cases("c03", tier, rng, 120, ap03); cases.extend(hc); dist["derived_objects"] += len(hc)
    return {"cases": cases, "exhaustive": True, "dist": dict(dist),
            "rule": "every ordered pair of truth functions of <= 2 variables under every alignment of their variable sets inside a %d-name universe, x {and, or, xor, imply, iff} (+ not) x three representations, every call form the representation has (by value; by reference for tables and diagrams; in place for diagrams); sampled 3-variable pairs and random 5-8 input operands; operands produced by random programs of operations; non-trivial = the input sets differ and neither contains the other; distinct = aligned pair" % len(universe)}


def identity_histories(c, reg, kind, which):
    """an object denoting the same function, obtained through a history"""
    if which == 0:
        return c.r("restrict %d 0" % reg)
    if which == 1:
        t = c.r("mkconst %s 1" % ("E" if kind == "E" else "B")) if kind != "T" else None
        if kind == "T":
            e = c.r("expr C 1"); t = c.r("conv T %d" % e)
        return c.r("op2 and val %d %d" % (reg, t))
    if which == 2:
        x = c.r("op1 not %d" % reg); return c.r("op1 not %d" % x)
    if which == 3:
        other = {"E": "T", "T": "E", "B": "E"}[kind]   # avoid the known-defective T->B step
        x = c.r("conv %s %d" % (other, reg)); return c.r("conv %s %d" % (kind, x))
    return c.r("exists %d 1 %s" % (reg, hexname("zz")))


def gen_C04(tier, rng):
    cases = []; dist = collections.Counter(); n = 0
    universe = ["a", "b", "c"]
    pairs = aligned_pairs(universe, 2)
    if tier == "quick":
        pairs = [p for i, p in enumerate(pairs) if i % 2 == 0 or p[1] == p[3]]
    for idx, (vf, tf, vg, tg) in enumerate(pairs):
        c = Case("c04_%d" % n); n += 1
        rf = three_reps(c, gen.expr_of_tv(vf, tf, "dnf")); rg = three_reps(c, gen.expr_of_tv(vg, tg, "cnf"))
        for kind, x, y in zip("ETB", rf, rg):
            c.q("equiv %d %d" % (x, y)); c.q("implied %d %d" % (x, y)); c.q("semeq %d %d" % (x, y))
            h = (idx + "ETB".index(kind)) % 5
            if kind == "T" and h == 3: h = 2
            x2 = identity_histories(c, x, kind, h); y2 = identity_histories(c, y, kind, (h + 2) % 5 if not (kind == "T" and (h + 2) % 5 == 3) else 0)
            c.q("equiv %d %d" % (x2, y)); c.q("equiv %d %d" % (x2, y2)); c.q("implied %d %d" % (x, y2)); c.q("equiv %d %d" % (x, x2))
        union = sorted(set(vf) | set(vg))
        ef = diff_expand(vf, tf, union); eg = diff_expand(vg, tg, union)
        dist["equal" if ef == eg else ("implied" if all(a == "1" or b == "0" for a, b in zip(ef, eg)) else "neither")] += 1
        cases.append(c.done("%s:%s|%s:%s" % ("".join(vf), tf, "".join(vg), tg), set(vf) != set(vg)))
    for _ in range(200 if tier == "quick" else 3000):
        vs = sorted(rng.sample(["a", "b", "c", "d"], 3))
        tf = "".join(rng.choice("01") for _ in range(8))
        tg = tf if rng.random() < 0.4 else "".join((ch if rng.random() < 0.8 else "1") for ch in tf)
        c = Case("c04_%d" % n); n += 1
        rf = three_reps(c, gen.expr_of_tv(vs, tf, "mix")); rg = three_reps(c, gen.expr_of_tv(vs, tg, "dnf"))
        for x, y in zip(rf, rg):
            c.q("equiv %d %d" % (x, y)); c.q("implied %d %d" % (x, y)); c.q("implied %d %d" % (y, x))
        dist["three_var"] += 1
        cases.append(c.done("%s:%s|%s" % ("".join(vs), tf, tg), True))
    # operands obtained through arbitrary operation sequences (the property's quantifier says so): random programs as in
    # C15, then comparisons between registers of the same representation, and of each register with itself
    for k_ in range(400 if tier == "quick" else 4000):
        c = Case("c04_h%d" % k_)
        names = gen.NAMES[: rng.randint(3, 5)]
        kinds = random_program(rng, c, rng.randint(6, 16), names, allow_tb=False)
        # drop the observation lines of the program part? they are cheap; keep them (they also localise a failure)
        byk = collections.defaultdict(list)
        for i_, kk in enumerate(kinds): byk[kk].append(i_)
        for kk, regs_ in byk.items():
            pairs = [(x, y) for x in regs_ for y in regs_ if x < y]
            rng.shuffle(pairs)
            for x, y in pairs[:6]:
                c.q("equiv %d %d" % (x, y)); c.q("implied %d %d" % (x, y)); c.q("implied %d %d" % (y, x))
            for x in regs_[-3:]: c.q("equiv %d %d" % (x, x))
        dist["after_operation_sequences"] += 1
        cases.append(c.done("hist%d" % k_, True))
    # wide pairs (7-9 inputs): equal functions in different shapes, a strengthening / weakening, different input sets
    for nv in ([7, 8, 9] if tier == "quick" else [7, 8, 9, 10, 11]):
        for rep in range(3 if tier == "quick" else 8):
            f = sparse_wide(rng, nv); g0 = sparse_wide(rng, nv - 1, cnf=True)
            variants = [("same", gen.Nn(gen.Nn(f))), ("stronger", gen.A([f, g0])), ("weaker", gen.O([f, g0])), ("other", g0)]
            c = Case("c04_%d" % n); n += 1
            rf = three_reps(c, f)
            for nm, g in variants:
                rg = three_reps(c, g)
                for x, y in zip(rf, rg):
                    c.q("equiv %d %d" % (x, y)); c.q("implied %d %d" % (x, y)); c.q("implied %d %d" % (y, x)); c.q("semeq %d %d" % (x, y))
            dist["wide%d" % nv] += 1
            cases.append(c.done("wide%d/%d" % (nv, rep), True))
    return {"cases": cases, "exhaustive": tier != "quick", "dist": dict(dist),
            "rule": "ordered pairs of truth functions of <= 2 variables under every alignment in a 3-name universe (quick: every second pair plus all pairs with equal vectors), each operand also obtained through an identity history (restrict {}, & true, double negation, round trip through another representation, exists {foreign}); is_equivalent / is_implied_by / semantic_eq in three representations; sampled 3-variable pairs; operands produced by random programs of 5-14 operations (connectives, restriction, quantifiers, substitution, conversions) compared pairwise; wide pairs of 7-9 (11) inputs (same / stronger / weaker / unrelated); the evidence counts equal / implied / neither outcomes; non-trivial = different input sets"}


def diff_expand(ins, tv, union):
    from .diff import expand
    return expand(list(ins), tv, list(union))


# ------------------------------------------------------------------ C06 / C07
def gen_quant(prefix, ops, tier, rng):
    cases = []; dist = collections.Counter(); n = 0
    universe = ["a", "b", "c", "z"]
    subsets = [list(s) for k in range(5) for s in itertools.combinations(universe, k)]
    for nv in range(0, 4):
        vs = ["a", "b", "c"][:nv]
        for tv in gen.all_tvs(nv):
            form = ("dnf", "cnf", "mix")[int(tv, 2) % 3] if nv == 3 and tier == "quick" else None
            for fm in ([form] if form else ["dnf", "mix"]):
                c = Case("%s_%d" % (prefix, n)); n += 1
                regs = three_reps(c, gen.expr_of_tv(vs, tv, fm))
                nt = False
                for V in subsets:
                    if len(set(V) & set(vs)) >= 2 or not V: nt = True
                    for op in ops:
                        for r in regs:
                            k = c.r("%s %d %s" % (op, r, set_tokens(V))); c.q("obs %d" % k)
                dist["vars%d" % nv] += 1
                cases.append(c.done("%d/%s/%s" % (nv, tv, fm), nt))
    # expressions in arbitrary shapes (nested negations, repeated variables, constants, empty nodes)
    memo_ = {}
    leaves2 = [gen.L("a"), gen.L("b"), gen.C(0), gen.C(1)]
    shapes = [e for s_ in range(1, 5) for e in gen.enum_trees(s_, leaves2, 2, memo_)]
    five = gen.enum_trees(5, leaves2, 2, memo_)
    shapes += rng.sample(five, min(len(five), 1500 if tier == "quick" else 20000))
    vsets = [[], ["a"], ["b"], ["a", "b"], ["a", "z"]]
    for k_ in range(0, len(shapes), 12):
        c = Case("%s_s%d" % (prefix, n)); n += 1
        for e in shapes[k_:k_ + 12]:
            r0 = c.r("expr " + pe(e))
            for V in vsets:
                for op in ops:
                    kk = c.r("%s %d %s" % (op, r0, set_tokens(V))); c.q("obs %d" % kk)
        dist["expr_shapes"] += len(shapes[k_:k_ + 12])
        cases.append(c.done("shapes%d" % k_, True))
    for _ in range(80 if tier == "quick" else 800):
        names = gen.NAMES[: rng.randint(4, 6)]
        e = gen.rand_tree(rng, 4, names, consts=False, empties=False)
        c = Case("%s_%d" % (prefix, n)); n += 1
        regs = three_reps(c, e)
        for _ in range(4):
            V = rng.sample(names + ["z"], rng.randint(1, 3))
            for op in ops:
                for r in regs[1:]:      # tables and diagrams; expression results grow exponentially
                    k = c.r("%s %d %s" % (op, r, set_tokens(sorted(V)))); c.q("obs %d" % k)
        dist["random"] += 1
        cases.append(c.done(pe(e), True))
    # objects that are the result of operation sequences, quantified / differentiated again (tables and diagrams)
    def apq(c, kinds, names):
        for i_, kk in enumerate(kinds):
            if kk == "E": continue
            V = sorted(rng.sample(names + ["zz", "0p"], rng.randint(1, 2)))
            for op in ops:
                k = c.r("%s %d %s" % (op, i_, set_tokens(V))); c.q("obs %d" % k)
    hc = derived_cases(prefix, tier, rng, 100, apq); cases.extend(hc); dist["derived_objects"] += len(hc)
    # wide functions (7-9 inputs): the restricted halves have 64 rows and more
    for nv in ([7, 8, 9] if tier == "quick" else [7, 8, 9, 10, 11]):
        for rep in range(2 if tier == "quick" else 6):
            e = sparse_wide(rng, nv, cnf=(rep % 2 == 1))
            c = Case("%s_w%d" % (prefix, n)); n += 1
            regs = three_reps(c, e)
            vs = WIDE_NAMES[:nv]
            for V in ([vs[0]], [vs[-1]], [vs[nv // 2], "zz"], rng.sample(vs, 2), ["zz"], rng.sample(vs, 3)):
                for op in ops:
                    for r in regs[1:]:
                        k = c.r("%s %d %s" % (op, r, set_tokens(sorted(V)))); c.q("obs %d" % k)
            dist["wide%d" % nv] += 1
            cases.append(c.done("wide%d/%d" % (nv, rep), True))
    return cases, dict(dist)


def gen_C06(tier, rng):
    cases, dist = gen_quant("c06", ["exists", "forall"], tier, rng)
    return {"cases": cases, "exhaustive": True, "dist": dist,
            "rule": "every truth function of <= 3 variables x every subset of the 4-name universe {a,b,c,z} (16 subsets: empty, foreign, several inputs) x {exists, forall} x three representations, full observation; every expression tree with <= 4 nodes over {a, b, constants} (sample of 5) incl. nested negations, quantified over {}, {a}, {b}, {a,b}, {a,z}; random 4-6 input functions with 1-3 quantified names; sparse functions of 7-9 (11) inputs (first / last / middle / foreign / several variables); non-trivial = the set is empty or contains >= 2 inputs; distinct = (function, shape)"}


def gen_C07(tier, rng):
    cases, dist = gen_quant("c07", ["deriv"], tier, rng)
    return {"cases": cases, "exhaustive": True, "dist": dist,
            "rule": "every truth function of <= 3 variables x every subset of {a,b,c,z} x derivative x three representations, full observation; every small expression tree incl. nested negations; random 4-6 input functions; sparse functions of 7-9 (11) inputs; non-trivial = the set is empty or contains >= 2 inputs (the cases the suite does not have); distinct = (function, shape)"}


# ------------------------------------------------------------------ C08
def gen_C08(tier, rng):
    cases = []; dist = collections.Counter(); n = 0
    repl = []
    for x in ["a", "b", "c"]:
        repl += [([x], "01"), ([x], "10")]
    repl += [([], "0"), ([], "1")]
    for x, y in [("a", "b"), ("a", "c"), ("b", "c")]:
        repl += [([x, y], "0001"), ([x, y], "0111"), ([x, y], "0110")]
    keys = ["a", "b", "z"]
    fs = [(vs, tv) for nv in range(3) for vs in [["a", "b"][:nv]] for tv in gen.all_tvs(nv)]
    maps = [[(k, g)] for k in keys for g in repl]
    two = [[(k1, g1), (k2, g2)] for k1, k2 in [("a", "b"), ("a", "z"), ("b", "z")] for g1 in repl for g2 in repl]
    maps += rng.sample(two, 120 if tier == "quick" else len(two))
    for vs, tv in fs:
        if len(vs) < 1 and tier == "quick":
            use = maps[::7]
        else:
            use = maps
        for m in use:
            c = Case("c08_%d" % n); n += 1
            regs = three_reps(c, gen.expr_of_tv(vs, tv, "dnf"))
            gregs = [three_reps(c, gen.expr_of_tv(gv, gt, "dnf")) for _, (gv, gt) in m]
            for i, r in enumerate(regs):
                toks = "%d%s" % (len(m), "".join(" %s %d" % (hexname(k), gregs[j][i]) for j, (k, _) in enumerate(m)))
                k_ = c.r("subst %d %s" % (r, toks)); c.q("obs %d" % k_)
            ks = {k for k, _ in m}
            mentions_other = any(set(gv) & (ks - {k}) for k, (gv, _) in m)
            foreign = bool(ks - set(vs)); fresh = any("c" in gv for _, (gv, _) in m)
            selfref = any(k in gv for k, (gv, _) in m)
            dist["other_key" if mentions_other else "self" if selfref else "foreign" if foreign else "fresh" if fresh else "plain"] += 1
            cases.append(c.done("%s:%s/%s" % ("".join(vs), tv, m), mentions_other or foreign or fresh))
    for _ in range(100 if tier == "quick" else 1500):
        vs = ["a", "b", "c"]
        tv = "".join(rng.choice("01") for _ in range(8))
        m = []
        for k in rng.sample(["a", "b", "c", "z"], rng.randint(1, 3)):
            gv = sorted(rng.sample([x for x in ["a", "b", "c", "d"] if x != k or rng.random() < 0.1], rng.randint(0, 2)))
            m.append((k, (gv, "".join(rng.choice("01") for _ in range(1 << len(gv))))))
        c = Case("c08_%d" % n); n += 1
        regs = three_reps(c, gen.expr_of_tv(vs, tv, "mix"))
        gregs = [three_reps(c, gen.expr_of_tv(gv, gt, "dnf")) for _, (gv, gt) in m]
        for i, r in enumerate(regs):
            toks = "%d%s" % (len(m), "".join(" %s %d" % (hexname(k), gregs[j][i]) for j, (k, _) in enumerate(m)))
            k_ = c.r("subst %d %s" % (r, toks)); c.q("obs %d" % k_)
        dist["three_var_random"] += 1
        cases.append(c.done("%s/%s" % (tv, m), True))
    # Expression::rename_literals (substitution of variables by variables): every map with keys among {a, b, z} and
    # values among {a, b, c, z} of at most two entries (identity, swap, merge, foreign key, chain a->b b->c) on every
    # function of <= 2 variables in three shapes, and random maps on random trees with constants and empty nodes
    rs = random.Random(rng.getstate()[1][1] + 8)    # a side stream: the draws below must not shift the streams that follow
    vals = ["a", "b", "c", "z"]
    rmaps = [[]] + [[(k, v)] for k in ["a", "b", "z"] for v in vals]
    rmaps += [[(k1, v1), (k2, v2)] for k1, k2 in [("a", "b"), ("a", "z"), ("b", "z")] for v1 in vals for v2 in vals]
    rtoks = lambda m: "%d%s" % (len(m), "".join(" %s %s" % (hexname(k), hexname(v)) for k, v in m))
    for nv in range(3):
        vs = ["a", "b"][:nv]
        for tv in gen.all_tvs(nv):
            for form in ["dnf", "cnf", "mix"]:
                c = Case("c08_%d" % n); n += 1
                r = c.r("expr " + pe(gen.expr_of_tv(vs, tv, form)))
                for m in (rmaps if tier != "quick" or nv == 2 else rmaps[::3]):
                    c.q("rename %d %s" % (r, rtoks(m)))
                dist["rename"] += 1
                cases.append(c.done("rename %s:%s/%s" % ("".join(vs), tv, form), True))
    for _ in range(60 if tier == "quick" else 600):
        c = Case("c08_%d" % n); n += 1
        pool_ = ["a", "b", "c", "d", "e"]
        r = c.r("expr " + pe(gen.rand_tree(rs, rs.randint(1, 4), pool_, max_arity=3, consts=True, empties=True)))
        # also on the result of operations (derived operands), and renamed twice
        r2 = c.r("op2 xor val %d %d" % (r, c.r("expr " + pe(gen.rand_tree(rs, 2, pool_, max_arity=2, consts=False, empties=False)))))
        for reg_ in (r, r2):
            for _k in range(3):
                ks = rs.sample(pool_ + ["z"], rs.randint(0, 4))
                m = sorted((k, rs.choice(pool_ + ["z", "0"])) for k in ks)
                c.q("rename %d %s" % (reg_, rtoks(m)))
        dist["rename_random"] += 1
        cases.append(c.done("rename random", True))
    # wide targets (7-8 inputs, result up to 10): 2-4 keys spread over the inputs, replacements over other inputs and
    # over fresh variables shared between replacements (never over keys: that is the diagrams' documented refusal)
    for nv in ([7, 8] if tier == "quick" else [7, 8, 9]):
        for rep in range(3 if tier == "quick" else 10):
            f = sparse_wide(rng, nv, cnf=(rep % 2 == 1))
            vs = WIDE_NAMES[:nv]
            keys = sorted(rng.sample(vs, rng.randint(2, 4)) + (["zz"] if rng.random() < 0.3 else []))
            nonkeys = [x for x in vs if x not in keys]
            c = Case("c08_%d" % n); n += 1
            regs = three_reps(c, f)
            gregs = []
            for k in keys:
                pool_ = rng.sample(["0p", "q"], rng.randint(1, 2)) + rng.sample(nonkeys, min(len(nonkeys), rng.randint(0, 2)))
                g = gen.rand_tree(rng, rng.randint(0, 2), pool_, max_arity=2, consts=(rng.random() < 0.2), empties=False)
                gregs.append(three_reps(c, g))
            for i, r in enumerate(regs):
                toks = "%d%s" % (len(keys), "".join(" %s %d" % (hexname(k), gregs[j][i]) for j, k in enumerate(keys)))
                k_ = c.r("subst %d %s" % (r, toks)); c.q("obs %d" % k_)
            dist["wide%d" % nv] += 1
            cases.append(c.done("wide%d/%d" % (nv, rep), True))
    return {"cases": cases, "exhaustive": tier != "quick", "dist": dict(dist),
            "rule": "every truth function of <= 2 variables over {a,b} as f; maps with one key from {a, b, foreign z} and every replacement from a pool of 17 functions over subsets of {a,b,c} (literals, negated literals, constants, and/or/xor of two), and two-key maps (quick: 120 sampled, thorough: all); three representations; 3-variable f with random 1-3 key maps; sparse 7-8 (9) input f with 2-4 keys and replacements over other inputs and shared fresh variables; non-trivial = a replacement mentions another key, or a key is foreign, or a fresh variable is introduced; the distribution counts these classes and the documented self-reference refusal; plus Expression::rename_literals: every map of <= 2 entries with keys in {a,b,z} and values in {a,b,c,z} (identity, swap, chain, merge, foreign key) on every function of <= 2 variables in three shapes, and random maps on random trees (constants, empty nodes) and on results of operations"}


# ------------------------------------------------------------------ C09 / C10
def padded(vs, tv, pad):
    """(f over vs) with an extra declared, inessential input `pad`"""
    return gen.A([gen.expr_of_tv(vs, tv, "dnf"), gen.O([gen.L(pad), gen.Nn(gen.L(pad))])])


def gen_enum(prefix, tier, rng, maxv, pads):
    cases = []; dist = collections.Counter(); n = 0
    for nv in range(0, maxv + 1):
        vs = ["a", "b", "c", "d"][:nv]
        for tv in gen.all_tvs(nv):
            es = [gen.expr_of_tv(vs, tv, f) for f in (["dnf", "cnf", "mix"] if nv <= 2 else ["dnf"])]
            if pads:
                es += [padded(vs, tv, p) for p in ["0", "aa", "bb", "z"][: (4 if nv <= 2 or tier != "quick" else 2)]]
            c = Case("%s_%d" % (prefix, n)); n += 1
            for e in es:
                for r in three_reps(c, e):
                    c.q("enum %d" % r)
            if prefix == "c10":
                # the public boolean_point_to_valuation of expressions and tables: points of the right length and of
                # the two neighbouring lengths
                regs_ = three_reps(c, es[0])
                for ln_ in sorted({max(nv - 1, 0), nv, nv + 1}):
                    pb = "".join("01"[(n * 7 + ln_ * 3 + j_ * 5) % 3 % 2] for j_ in range(ln_)) or "."    # no draw from rng
                    c.q("p2v %d %s" % (regs_[0], pb)); c.q("p2v %d %s" % (regs_[1], pb))
            dist["vars%d" % nv] += 1
            from .diff import expand
            ess = [x for i, x in enumerate(vs) if any(tv[j] != tv[j ^ (1 << (nv - 1 - i))] for j in range(1 << nv))]
            cases.append(c.done("%d/%s" % (nv, tv), len(ess) < nv or pads))
    # objects that are the RESULT of operations (restriction, quantifiers, substitution, connectives on different input
    # sets, conversions), not only freshly built ones: random programs as in C15, every register enumerated at the end
    for k_ in range(200 if tier == "quick" else 2500):
        c = Case("%s_h%d" % (prefix, k_))
        names = gen.NAMES[: rng.randint(3, 5)]
        kinds = random_program(rng, c, rng.randint(5, 14), names, allow_tb=False)
        for i_ in range(len(kinds)): c.q("enum %d" % i_)
        dist["derived_objects"] = dist.get("derived_objects", 0) + 1
        cases.append(c.done("hist%d" % k_, True))
    return cases, dict(dist)


def enum_monotone(n, leaves, memo):
    """negation-free, constant-free trees with exactly n nodes, And/Or of arity 2..3"""
    if n in memo: return memo[n]
    out = []
    if n == 1:
        out = list(leaves)
    else:
        for ar in (2, 3):
            for parts in gen.compositions(n - 1, ar):
                for kids in itertools.product(*[enum_monotone(p, leaves, memo) for p in parts]):
                    out.append(gen.A(kids)); out.append(gen.O(kids))
    memo[n] = out
    return out


def gen_C09(tier, rng):
    cases, dist = gen_enum("c09", tier, rng, 3 if tier == "quick" else 4, True)
    n = len(cases)
    def add_exprs(es, tag, with_tb):
        nonlocal n
        for k in range(0, len(es), 20):
            c = Case("c09_x%d" % n); n += 1
            for e in es[k:k + 20]:
                r0 = c.r("expr " + pe(e)); c.q("enum %d" % r0)
                if with_tb:
                    r1 = c.r("conv T %d" % r0); c.q("enum %d" % r1); r2 = c.r("conv B %d" % r0); c.q("enum %d" % r2)
            cases.append(c.done("%s_%d" % (tag, k), True)); dist[tag] = dist.get(tag, 0) + len(es[k:k + 20])
    # every small expression tree: syntactic shapes in which a mentioned variable is absorbed or cancelled
    memo = {}
    small = [e for s_ in range(1, 5) for e in gen.enum_trees(s_, LEAVES, 3, memo)]
    add_exprs(small, "all_trees_le4", False)
    five = gen.enum_trees(5, LEAVES, 3, memo)
    add_exprs(rng.sample(five, 3000 if tier == "quick" else len(five)), "trees_5", False)
    mono = [e for s_ in range(1, (6 if tier == "quick" else 8)) for e in enum_monotone(s_, [gen.L("a"), gen.L("b"), gen.L("c")], {})]
    add_exprs(mono if len(mono) < 6000 else rng.sample(mono, 6000), "monotone_trees", True)
    for _ in range(60 if tier == "quick" else 600):
        names = gen.NAMES[: rng.randint(4, 7)]
        e = gen.rand_tree(rng, 5, names)
        c = Case("c09_r%d" % n); n += 1
        for r in three_reps(c, e): c.q("enum %d" % r)
        cases.append(c.done(pe(e), True)); dist["random"] = dist.get("random", 0) + 1
    return {"cases": cases, "exhaustive": True, "dist": dist,
            "rule": "every truth function of <= %d variables in three expression shapes, each also with a declared but inessential input padded in EVERY position of the sorted order (before, between, after), converted to table and diagram; every expression tree with <= 4 nodes (sample of 5) and every negation-free constant-free tree up to a size bound over 3 names (absorbed and repeated variables); essential_inputs / degree / essential_degree compared with the specification (exists an assignment where flipping changes the value); non-trivial = some declared input is inessential; distinct = function or tree" % (3 if tier == "quick" else 4)}


def gen_C10(tier, rng):
    cases, dist = gen_enum("c10", tier, rng, 3 if tier == "quick" else 4, False)
    n = len(cases)
    for k in range(0, 9 if tier == "quick" else 11):
        c = Case("c10_d%d" % k); n += 1
        e = gen.A([gen.L(x) for x in gen.NAMES[:k]]) if k else gen.C(1)
        for r in three_reps(c, e): c.q("enum %d" % r)
        cases.append(c.done("arity%d" % k, True)); dist["arity%d" % k] = 1
    for _ in range(40 if tier == "quick" else 400):
        names = gen.NAMES[: rng.randint(5, 9)]
        e = gen.rand_tree(rng, 5, names)
        c = Case("c10_r%d" % n); n += 1
        for r in three_reps(c, e): c.q("enum %d" % r)
        cases.append(c.done(pe(e), True)); dist["random"] = dist.get("random", 0) + 1
    # expression shapes (not only canonical DNF/CNF): every small tree, every small negation-free tree
    memo_ = {}
    small = [e for s_ in range(1, 5) for e in gen.enum_trees(s_, LEAVES, 3, memo_)]
    five = gen.enum_trees(5, LEAVES, 3, memo_)
    mono = [e for s_ in range(1, (6 if tier == "quick" else 8)) for e in enum_monotone(s_, [gen.L("a"), gen.L("b"), gen.L("c")], {})]
    shapes = small + rng.sample(five, 2000 if tier == "quick" else len(five)) + (mono if len(mono) < 6000 else rng.sample(mono, 6000))
    for k_ in range(0, len(shapes), 25):
        c = Case("c10_s%d" % n); n += 1
        for e in shapes[k_:k_ + 25]:
            r0 = c.r("expr " + pe(e)); c.q("enum %d" % r0)
        cases.append(c.done("shapes%d" % k_, True)); dist["expr_shapes"] = dist.get("expr_shapes", 0) + len(shapes[k_:k_ + 25])
    # wide diagrams: the weight is known in closed form (groups of disjoint variables), no enumeration
    for _ in range(60 if tier == "quick" else 600):
        nvars = rng.choice([20, 40, 52, 53, 54, 55, 60, 63, 64, 65, 70, 100])
        names = ["x%03d" % i for i in range(nvars)]
        order = names[:]; rng.shuffle(order)
        groups = []; i = 0
        while i < nvars and len(groups) < rng.randint(1, 4):
            k = rng.randint(1, max(1, min(nvars - i, rng.choice([1, 2, 3, nvars])))); groups.append(order[i:i + k]); i += k
        rest = order[i:]
        weight = 1; parts = []
        for g_ in groups:
            kind_ = rng.choice(["or", "and", "nor"])
            lits_ = [gen.L(x) if rng.random() < 0.7 else gen.Nn(gen.L(x)) for x in g_]
            if kind_ == "or": parts.append(gen.O(lits_)); weight *= (1 << len(g_)) - 1
            elif kind_ == "and": parts.append(gen.A(lits_)); weight *= 1
            else: parts.append(gen.Nn(gen.O(lits_))); weight *= 1
        for x in rest: parts.append(gen.O([gen.L(x), gen.Nn(gen.L(x))]))
        weight *= 1 << len(rest)
        e = gen.A(parts)
        negate = rng.random() < 0.4
        if negate: e = gen.Nn(e); weight = (1 << nvars) - weight
        c = Case("c10_w%d" % n); n += 1
        r0 = c.r("expr " + pe(e)); r2 = c.r("conv B %d" % r0); c.q("weight %d %d" % (r2, weight))
        k_ = c.r("op1 not %d" % r2); c.q("weight %d %d" % (k_, (1 << nvars) - weight))
        cases.append(c.done("wide%d" % n, True)); dist["wide_%d" % nvars] = dist.get("wide_%d" % nvars, 0) + 1
    return {"cases": cases, "exhaustive": True, "dist": dist,
            "rule": "every truth function of <= %d variables in the three representations: domain, image, relation, support, weight, sat_point, degrees (iterators also polled after exhaustion); conjunctions of 0..%d literals for the domain order; every expression tree with <= 4 nodes, a sample of 5-node trees and every small negation-free tree (enumerations of expressions in arbitrary shapes); random 5-9 input functions; diagrams with 20..100 inputs whose weight is known in closed form (beyond 2^53 and 2^64); oracle: domain = 2^n points in lexicographic order, image = specified function in that order, relation = zip, support = exactly the 1-points (as a set for diagrams), weight = their number, sat_point in support / none iff empty; non-trivial = all; distinct = function; for every enumerated object the four iterators are created first and stepped in turn 2^n + 2 times by next(), nth(n) and nth(2^n - 1) each followed by next(), count() and last() on fresh iterators and after nth(n); next(), size_hint() of fresh and partly consumed iterators must bound what is left; the public boolean_point_to_valuation with points of length n - 1, n, n + 1" % (3 if tier == "quick" else 4, 8 if tier == "quick" else 10)}


# ------------------------------------------------------------------ C11
def gen_C11(tier, rng):
    cases = []; dist = collections.Counter(); n = 0
    memo = {}
    upto = 4 if tier == "quick" else 5
    def add(e, tag):
        nonlocal n
        c = Case("c11_%d" % n); n += 1
        r0 = c.r("expr " + pe(e)); c.q("preds %d" % r0)
        for op in ("nnf", "cnf", "dnf"):
            k = c.r("op1 %s %d" % (op, r0)); c.q("obs %d" % k); c.q("preds %d" % k)
        s = pe(e)
        nested = ("O" in s and "A" in s)
        dist[tag] += 1
        cases.append(c.done(s, nested or " 0" in s or "A 1 " in s or "O 1 " in s))
    for s in range(1, upto + 1):
        for e in gen.enum_trees(s, LEAVES, 3, memo):
            add(e, "size%d" % s)
    trees = gen.enum_trees(upto + 1, LEAVES, 3, memo)
    for e in rng.sample(trees, min(len(trees), 3000 if tier == "quick" else 30000)):
        add(e, "size%d_sampled" % (upto + 1))
    for _ in range(300 if tier == "quick" else 3000):
        add(gen.rand_tree(rng, rng.randint(3, 5), gen.NAMES[: rng.randint(2, 5)], max_arity=3), "random")
    # deep same-kind nesting (what the levelling operators never build): And in And in ..., Or in Or in ..., with one offending leaf
    def nest(kinds_, leaf):
        e = leaf
        for k_ in reversed(kinds_):
            e = (gen.A if k_ == "A" else gen.O if k_ == "O" else None)([e, gen.L("c")]) if k_ in "AO" else gen.Nn(e)
        return e
    offending = [gen.O([gen.L("a"), gen.L("b")]), gen.A([gen.L("a"), gen.L("b")]), gen.C(1), gen.Nn(gen.Nn(gen.L("a"))), gen.Nn(gen.A([gen.L("a"), gen.L("b")])), gen.L("a"), gen.Nn(gen.L("a"))]
    for depth in (2, 3, 4):
        for ks in itertools.product("AO", repeat=depth):
            for leaf in offending:
                add(nest(ks, leaf), "deep_nesting")
                add(gen.A([nest(ks, leaf)]) if ks[0] == "A" else gen.O([nest(ks, leaf)]), "deep_nesting_unary")
    return {"cases": cases, "exhaustive": True, "dist": dict(dist),
            "rule": "every expression tree with <= %d nodes over 3 names, constants, n-ary arities 0..3 (plus a sample of the next size, random deeper trees, and And/Or chains nested 2-4 deep around an offending leaf): to_nnf / to_cnf / to_dnf, the returned TREE compared with the model, truth vector and variables with the specification, is_nnf / is_cnf / is_dnf on inputs and results compared with the model's predicates (proved equal to the reference shapes); non-trivial = mixes And and Or or has an arity-0/1 node; distinct = tree" % upto}


# ------------------------------------------------------------------ C15 / C20
def random_program(rng, c, length, names, allow_tb=True):
    """a random well-typed program (fills c). Kinds and a size estimate are tracked so that
    instructions stay valid and expression trees stay below a few thousand nodes."""
    kinds = []; sizes = []
    LIMIT = 1500
    def pick(k=None, maxsize=LIMIT):
        idx = [i for i, kk in enumerate(kinds) if (k is None or kk == k) and sizes[i] <= maxsize]
        return rng.choice(idx) if idx else None
    def push(k, sz): kinds.append(k); sizes.append(sz)
    def fresh_expr():
        e = gen.rand_tree(rng, rng.randint(1, 3), rng.sample(names, rng.randint(1, len(names))), max_arity=3)
        push("E", gen.size(e)); return c.r("expr " + pe(e))
    nn = len(names) + 1
    fresh_expr()
    guard = 0
    while len(kinds) < length and guard < 10 * length:
        guard += 1
        r = rng.random()
        before = len(kinds)
        if r < 0.10:
            fresh_expr()
        elif r < 0.30:
            i = pick(); tgt = rng.choice([t for t in "ETB" if t != kinds[i]])
            if kinds[i] == "T" and tgt == "B" and not allow_tb: tgt = "E"
            c.r("conv %s %d" % (tgt, i)); push(tgt, (nn * (1 << nn)) if tgt == "E" else 1)
        elif r < 0.50:
            i = pick(maxsize=300); 
            if i is None: continue
            j = pick(kinds[i], maxsize=300)
            op = rng.choice(OPS2)
            c.r("op2 %s %s %d %d" % (op, rng.choice(FORMS), i, j))
            push(kinds[i], (sizes[i] + sizes[j]) * (2 if op in ("xor", "iff") else 1) + 3 if kinds[i] == "E" else 1)
        elif r < 0.56:
            i = pick(); c.r("op1 not %d" % i); push(kinds[i], sizes[i] + 1)
        elif r < 0.68:
            i = pick(); v = [(x, rng.random() < 0.5) for x in names + ["zz"] if rng.random() < 0.3]
            c.r("restrict %d %s" % (i, val_tokens(v))); push(kinds[i], sizes[i])
        elif r < 0.82:
            i = pick(("T", "B")[rng.random() < 0.5]) if rng.random() < 0.8 else pick(maxsize=60)
            if i is None: i = pick(maxsize=60)
            if i is None: continue
            V = sorted(rng.sample(names + ["zz"], rng.randint(0, 2)))
            q = rng.choice(["exists", "forall", "deriv"])
            c.r("%s %d %s" % (q, i, set_tokens(V)))
            push(kinds[i], sizes[i] * ((5 if q == "deriv" else 2) ** len(V)) + 3 if kinds[i] == "E" else 1)
        elif r < 0.94:
            i = pick("B") if rng.random() < 0.5 else None    # diagram substitution has the most intricate code
            if i is None: i = pick(maxsize=40)
            if i is None: continue
            ks = rng.sample(names + ["zz"], rng.randint(1, min(3, len(names) + 1)))
            if rng.random() < 0.4:
                # replacements over variables the target does not have, shared between the replacements
                fresh_names = ["0p", "cq", "r"]     # sorting before, between and after the plain names
                m = []
                for k in sorted(ks):
                    e = gen.rand_tree(rng, rng.randint(1, 2), rng.sample(fresh_names, 2) + ([rng.choice(names)] if rng.random() < 0.3 else []), max_arity=2, consts=False, empties=False)
                    push("E", gen.size(e)); j = c.r("expr " + pe(e))
                    if kinds[i] != "E":
                        c.r("conv %s %d" % (kinds[i], j)); push(kinds[i], 1); j = len(kinds) - 1
                    m.append((k, j))
            else:
                m = [(k, pick(kinds[i], maxsize=40)) for k in sorted(ks)]
            c.r("subst %d %d%s" % (i, len(m), "".join(" %s %d" % (hexname(k), j) for k, j in m)))
            push(kinds[i], sizes[i] * max(sizes[j] for _, j in m) if kinds[i] == "E" else 1)
        elif r < 0.97:
            k = rng.choice("EB"); c.r("mkliteral %s %s %d" % (k, hexname(rng.choice(names)), rng.randint(0, 1))); push(k, 2)
        else:
            i = pick("E", maxsize=14)
            if i is None: continue
            op = rng.choice(["nnf", "cnf", "dnf"])
            c.r("op1 %s %d" % (op, i)); push("E", sizes[i] * 2 if op == "nnf" else min(LIMIT, 4 ** min(sizes[i], 6)))
        if len(kinds) == before: continue
        last = len(kinds) - 1
        c.q("obs %d" % last)
        if kinds[last] != "E": c.q("fresh %d" % last)
        if rng.random() < 0.25: c.q("enum %d" % last)
    return kinds


def derived_cases(prefix, tier, rng, nquick, apply, names_max=5):
    """cases whose objects are the RESULT of operation sequences (random programs as in C15); `apply(c, kinds, names)`
    then adds the property's own operation / observation on the registers"""
    out = []
    for k_ in range(nquick if tier == "quick" else nquick * 12):
        c = Case("%s_h%d" % (prefix, k_))
        names = gen.NAMES[: rng.randint(3, names_max)]
        kinds = random_program(rng, c, rng.randint(5, 12), names, allow_tb=False)
        apply(c, kinds, names)
        out.append(c.done("hist%d" % k_, True))
    return out


def gen_C15(tier, rng):
    cases = []; dist = collections.Counter()
    nprog = 700 if tier == "quick" else 12000
    for n in range(nprog):
        c = Case("c15_%d" % n)
        names = gen.NAMES[: rng.randint(2, 5)]
        kinds = random_program(rng, c, rng.randint(5, 30), names, allow_tb=(n % 4 == 0))
        for ln in c.lines:
            if ln.startswith("r "): dist[ln.split()[1]] += 1
        for k in kinds: dist["kind_" + k] += 1
        cases.append(c.done("prog%d" % n, True))
    # substitution-centred programs: a function with real structure (random truth vector over 3-4 inputs), 2-3 keys
    # among its inputs, replacements over fresh variables shared between them and over inputs that are not keys;
    # then the result is used further (connective with its origin, restriction, conversion)
    for n in range(120 if tier == "quick" else 1500):
        c = Case("c15_s%d" % n)
        nv = rng.randint(3, 4); vs = gen.NAMES[:nv]
        tv = "".join(rng.choice("01") for _ in range(1 << nv))
        kind_ = "EBT"[n % 3] if n % 5 else "B"
        r0 = c.r("expr " + pe(gen.expr_of_tv(vs, tv, rng.choice(["dnf", "cnf", "mix"]))))
        if kind_ != "E": r0 = c.r("conv %s %d" % (kind_, r0))
        keys = sorted(rng.sample(vs, rng.randint(2, 3)))
        nonkeys = [x for x in vs if x not in keys]
        m = []
        for k in keys:
            pool_ = rng.sample(["0p", "cq", "r"], 2) + (rng.sample(nonkeys, 1) if nonkeys and rng.random() < 0.4 else [])
            if kind_ != "B" and rng.random() < 0.3: pool_.append(rng.choice(keys))   # mentioning keys is refused by diagrams only
            e = gen.rand_tree(rng, rng.randint(0, 2), pool_, max_arity=2, consts=False, empties=False)
            j = c.r("expr " + pe(e))
            if kind_ != "E": j = c.r("conv %s %d" % (kind_, j))
            m.append((k, j))
        k_ = c.r("subst %d %d%s" % (r0, len(m), "".join(" %s %d" % (hexname(k), j) for k, j in m)))
        c.q("obs %d" % k_); c.q("enum %d" % k_)
        if kind_ != "E": c.q("fresh %d" % k_)
        k2 = c.r("op2 %s %s %d %d" % (rng.choice(["and", "or", "xor"]), rng.choice(FORMS), k_, r0)); c.q("obs %d" % k2)
        if kind_ != "E": c.q("fresh %d" % k2)
        k3 = c.r("restrict %d %s" % (k_, val_tokens([(rng.choice(["0p", "cq", "r"]), rng.random() < 0.5)]))); c.q("obs %d" % k3)
        k4 = c.r("conv %s %d" % (rng.choice([t for t in "ET" if t != kind_] or ["E"]), k_)); c.q("obs %d" % k4)
        dist["substitution_program"] += 1
        cases.append(c.done("subst%d" % n, True))
    return {"cases": cases, "exhaustive": False, "dist": dict(dist),
            "rule": "random well-typed programs of 5-30 instructions over {expr, conversions, connectives in all three call forms, not, restrict, exists/forall/derivative, substitute, mk_literal, normal forms} on a pool of objects of the three representations over 2-5 names plus a foreign one; after EVERY instruction: raw vectors through the hook, validate(), num_vars, the canonical unfolding of the node array, inputs, truth vector (and every fourth time all enumerations and the node count), compared with the model and the specification run on the same program; one program in four may use the table->diagram conversion (known finding D1); plus substitution-centred programs (2-3 keys, replacements over shared fresh variables, result used further); non-trivial = all; distinct = program"}


GENERATORS.update({"C01": gen_C01, "C03": gen_C03, "C04": gen_C04, "C06": gen_C06, "C07": gen_C07, "C08": gen_C08,
                   "C09": gen_C09, "C10": gen_C10, "C11": gen_C11, "C15": gen_C15})


# ------------------------------------------------------------------ C12 / C13 / C14 (parser)
LONGS = "ſ"; KELVIN = "K"
WORDS = ["false", "true", "and", "not", "or", "v", "f", "t", "0", "1"]
SYMBOLS = ["&&", "&", "∧", "^", "*", "||", "|", "∨", "+", "~", "!", "¬", "(", ")"]
IDENTS = ["a", "b", "nota", "t1", "avb", "true_", "x-y", "_z", "0a", "andB", "fals", "tru", "no", "abcdefgh", "tt"]
BRACED = ["{a}", "{a b}", "{true}", "{&}", "{x y z}"]
WS = [" ", " ", "　", "\t", "\n", "\r", "\x0b", "\x0c", "\x85", " ", " ", " ", " ", " ", " ", " "]


def case_variants(w, full=True):
    opts = []
    for ch in w:
        o = [ch, ch.upper()] if ch.isalpha() else [ch]
        if ch == "s" and full: o.append(LONGS)
        opts.append(o)
    vs = ["".join(t) for t in itertools.product(*opts)]
    return vs if full else [w, w.upper()] + ([w[0].upper() + w[1:]] if len(w) > 1 else [])


def parse_cases(prefix, strings, per_case=60, rng=None):
    if rng is not None:
        strings = list(strings); rng.shuffle(strings)      # related strings meet in one process in arbitrary order
    cases = []
    for k in range(0, len(strings), per_case):
        c = Case("%s_%d" % (prefix, k // per_case))
        nt = 0
        for s, flag in strings[k:k + per_case]:
            c.q("parse %s" % hexname(s)); nt += flag
        cases.append({"id": c.id, "lines": c.lines, "key": c.id, "nontrivial": nt > 0, "nt_count": nt})
    return cases


def rnd_sentence(rng, d):
    atoms = ["a", "b", "c", "true", "false", "T", "F", "1", "0", "{x y}", "nota", "v1", "x"]
    r = rng.random()
    if d == 0 or r < 0.3: return rng.choice(atoms)
    if r < 0.45: return rng.choice(["!", "~", "not ", "¬", "NOT ", "! "]) + rnd_sentence(rng, d - 1)
    if r < 0.6: return "(" + rnd_sentence(rng, d - 1) + ")"
    op = rng.choice([" & ", "&", " && ", " and ", " ^ ", "*", " | ", "|", " || ", " or ", " v ", "+", " AND ", " V ", " ∧ ", "∨"])
    return op.join(rnd_sentence(rng, d - 1) for _ in range(rng.randint(2, 4)))


def gen_C12(tier, rng):
    strings = []; seen = set(); dist = collections.Counter()
    def P(s, tag, flag=True):
        if s in seen: return
        seen.add(s); strings.append((s, 1 if flag else 0)); dist[tag] += 1
    full_words = [v for w in WORDS for v in case_variants(w, True)]
    red_words = [v for w in WORDS for v in case_variants(w, False)] + ["fal" + LONGS + "e"]
    full = full_words + SYMBOLS + IDENTS + BRACED
    reduced = red_words + SYMBOLS + ["a", "nota", "t1", "avb", "true_", "x-y"] + ["{a}", "{a b}"]
    for a in full: P(a, "single")
    for a in full:
        for b in (full if tier != "quick" else reduced):
            for sep in ["", " ", "\t "]:
                P(a + sep + b, "pair")
    small = ["a", "nota", "T", "f", "1", "&", "and", "AND", "|", "v", "V", "or", "!", "not", "~", "(", ")", "{a b}", "^", "+", "∨"]
    trip = reduced if tier != "quick" else small
    for a in trip:
        for b in trip:
            for c3 in trip:
                P(a + b + c3, "triple_tight"); P(a + " " + b + " " + c3, "triple_spaced")
    if tier != "quick":
        for a in small:
            for b in small:
                for c3 in small:
                    for d4 in small:
                        P(" ".join([a, b, c3, d4]), "quad")
    for w in WS:
        P("a" + w + "&" + w + "b", "unicode_ws"); P("not" + w + "a", "unicode_ws"); P("(" + w + "a" + w + "|" + w + "b" + w + ")", "unicode_ws")
    for _ in range(4000 if tier == "quick" else 60000):
        P(rnd_sentence(rng, rng.randint(1, 5)), "random_sentence")
    for n in range(1, 9):
        for w in WORDS:
            for pad in ["x", "_", "-", "1"]:
                P(pad * n + w, "window_edge"); P(w + pad * n, "window_edge"); P(w + pad * n + " & a", "window_edge")
    cases = parse_cases("c12", strings, rng=rng)
    return {"cases": cases, "exhaustive": True, "dist": dict(dist),
            "rule": "every token over the full alphabet (every operator/constant spelling in every letter case incl. the long s, identifiers embedding keywords, brace names, parentheses), every pair under three spacings, every triple over a reduced alphabet, Unicode whitespace, keyword/identifier window edges, random sentences of the grammar; tokenize / from_str / parse_tokens / to_string compared with the model (error variant and position included) and the parsed function and variable set with the reference reading; %d strings in %d cases; non-trivial = all; distinct = string" % (len(strings), len(cases))}


def gen_C13(tier, rng):
    strings = []; seen = set(); dist = collections.Counter()
    def P(s, tag):
        if s in seen: return
        seen.add(s); strings.append((s, 1)); dist[tag] += 1
    P("", "empty")
    followers = list("az AZ09-_&|!~^*+(){}@#$%.,;:'\"\\/<>=?[]`") + [LONGS, KELVIN, " ", " ", "　", "\t", "\n", "\r", "\x0b", "\x0c", "\x85", "​", "﻿", "é", "İ", "ı", "ẞ", "ß", "中", "\U0001f600", "∧", "∨", "¬", "\x00", "\x7f", "́"]
    full_words = [v for w in WORDS for v in case_variants(w, tier != "quick")]
    if tier == "quick":
        # the one keyword spelling that is longer in bytes than its pattern (U+017F folds with s): seed P05_11
        full_words += ["fal" + LONGS + "e", "FAL" + LONGS + "E", "Fal" + LONGS + "e", "fAl" + LONGS + "E"]
    for w in full_words + SYMBOLS + ["{", "}"]:
        for f in followers:
            P(w + f, "keyword_follower"); P("a " + w + f + " b", "keyword_follower"); P(f + w, "keyword_follower")
    for f in followers:
        P(f, "single_char"); P("a" + f + "b", "single_char"); P("(" + f + ")", "single_char"); P("{" + f + "}", "single_char")
    for n in range(0, 7 if tier == "quick" else 8):
        for t in itertools.product("()a& ", repeat=n): P("".join(t), "paren_alphabet")
    for n in range(0, 6 if tier == "quick" else 7):
        for t in itertools.product("(){}a!", repeat=n): P("".join(t), "brace_alphabet")
    dangerous = list("(){}&|!~ ") + ["a", "t", "v", "1", "or", "not", "∧", LONGS]
    for t in itertools.product(dangerous, repeat=3): P("".join(t), "dangerous3")
    alpha1 = list("abtfvTFV01_- &|!~^*+(){}") + ["and", "or", "not", "true", "false", "&&", "||", " ", " ", "∧", "∨", "¬", LONGS, KELVIN]
    for _ in range(6000 if tier == "quick" else 80000):
        P("".join(rng.choice(alpha1) for _ in range(rng.randint(1, 10))), "token_soup")
    for _ in range(3000 if tier == "quick" else 40000):
        P("".join(chr(rng.randint(32, 126)) for _ in range(rng.randint(1, 14))), "ascii_soup")
    alpha2 = [chr(c) for c in range(0, 128)] + followers
    for _ in range(3000 if tier == "quick" else 40000):
        P("".join(rng.choice(alpha2) for _ in range(rng.randint(1, 10))), "unicode_soup")
    for _ in range(3000 if tier == "quick" else 30000):
        s = rnd_sentence(rng, rng.randint(1, 4))
        i = rng.randint(0, len(s)); P(s[:i] + s[i + 1:], "mutated_delete")
        i = rng.randint(0, len(s)); P(s[:i] + rng.choice("()&|! {}") + s[i:], "mutated_insert")
        if len(s) > 2:
            i = rng.randint(0, len(s) - 2); P(s[:i] + s[i + 1] + s[i] + s[i + 2:], "mutated_swap")
    for d in ([10, 100, 300] if tier == "quick" else [10, 100, 300, 600, 1000]):
        P("(" * d + "a" + ")" * d, "deep"); P("(" * d + "a" + ")" * (d - 1), "deep"); P("!" * d + "a", "deep"); P("a" + "&a" * d, "deep")
        P("(" * d + "a" + ")" * (d + 1), "deep"); P("{" * d + "a" + "}" * d, "deep")
    # long input (more than 2^16 characters): counters and positions narrower than usize
    big = 70000
    for s_ in ("a" * big, " " * big + "a", "a" * big + " & b", "{" + "x" * big + "}", "a" * 66000 + ")", " " * 66000 + "}", "a " * 1500 + "& b",
               "a & " * 2000 + "a", "(a | b) & " * 1500 + "c"):
        P(s_, "long")
    cases = parse_cases("c13", strings, rng=rng)
    return {"cases": cases, "exhaustive": True, "dist": dict(dist),
            "rule": "malformed and arbitrary text: every keyword/symbol followed or preceded by each of ~70 boundary characters (Unicode whitespace, long s, Kelvin sign, dotless i, NUL, combining mark, emoji, ...), every string over '()a& ' up to length %d and over '(){}a!' up to length %d, every 3-token string over 17 dangerous tokens, token / ASCII / Unicode soup, valid sentences with one character deleted, inserted or swapped, nesting depth and negation prefixes up to %d, inputs of more than 2^16 characters; accept/reject compared with the reference grammar (through the model, proved equal to it), error variant and position with the model, any panic is a failure; %d strings; non-trivial = all; distinct = string" % (6 if tier == "quick" else 7, 5 if tier == "quick" else 6, 300 if tier == "quick" else 1000, len(strings))}


SAFE_NAMES = ["a", "b1", "x_y", "-k", "nota", "T1"]


def is_proper(e):
    t = e[0]
    if t in "LC": return True
    if t == "N": return is_proper(e[1])
    return len(e[1]) >= 2 and all(is_proper(x) for x in e[1])


def no_empty(e):
    t = e[0]
    if t in "LC": return True
    if t == "N": return no_empty(e[1])
    return len(e[1]) >= 1 and all(no_empty(x) for x in e[1])


def gen_C14(tier, rng):
    cases = []; dist = collections.Counter(); n = 0
    leaves = [gen.L(x) for x in SAFE_NAMES] + [gen.C(0), gen.C(1)]
    memo = {}
    upto = 3 if tier == "quick" else 4
    pending = []
    def add(e, printable):
        pending.append((e, printable))
    for s in range(1, upto + 1):
        for e in gen.enum_trees(s, leaves, 3, memo):
            add(e, no_empty(e)); dist["size%d" % s] += 1
    trees = gen.enum_trees(upto + 1, leaves, 3, memo)
    for e in rng.sample(trees, min(len(trees), 4000 if tier == "quick" else 40000)):
        add(e, no_empty(e)); dist["size%d_sampled" % (upto + 1)] += 1
    for _ in range(1500 if tier == "quick" else 20000):
        e = gen.rand_tree(rng, rng.randint(2, 7), SAFE_NAMES, max_arity=4, empties=False)
        add(e, no_empty(e)); dist["random_deep"] += 1
    # identifiers that begin like a keyword or a constant, consist of digits only, or are long
    more_names = ["1a", "0x", "10", "2", "t1", "f0", "v2", "not1", "true1", "andy", "orb", "_", "-", "x-y", "A", "Z9", "abcdefghij_klmnop", "false_", "tt", "0_0"]
    for _ in range(600 if tier == "quick" else 8000):
        e = gen.rand_tree(rng, rng.randint(1, 5), rng.sample(more_names, 4), max_arity=3, empties=False)
        add(e, no_empty(e)); dist["keyword_like_names"] += 1
    bad_names = ["T", "v", "and", "a b", "", "}", "x)", "é", "f", "1", "falsE", "falſe", "a&b", "oR"]
    for _ in range(400 if tier == "quick" else 4000):
        e = gen.rand_tree(rng, rng.randint(1, 3), SAFE_NAMES[:2] + bad_names, max_arity=3)
        add(e, False); dist["unprintable_names_modelonly"] += 1
    for k in range(0, len(pending), 40):
        c = Case("c14_%d" % n); n += 1
        nt = False
        for e, printable in pending[k:k + 40]:
            r = c.r("expr " + pe(e))
            flags = (" printable" if printable else "") + (" proper" if printable and is_proper(e) else "")
            c.q("roundtrip %d%s" % (r, flags))
            nt = nt or printable
        cases.append(c.done(c.id, nt))
    return {"cases": cases, "exhaustive": True, "dist": dict(dist),
            "rule": "every expression tree with <= %d nodes over the names {a, b1, x_y, -k, nota, T1} and constants, n-ary arities 0..3, a sample of the next size and random deep trees, further trees over identifiers that begin like keywords / constants or consist of digits: print, tokenize, parse back; the text and the parsed tree are compared with the model, and for printable trees (non-empty And/Or) the parsed function and variables with the original's, for proper trees (arity >= 2) the parsed tree with the original tree; a further stream with names that are keywords, contain spaces or symbols is compared with the model only (outside the property's hypothesis); %d trees; non-trivial = printable; distinct = tree" % (upto, len(pending))}


GENERATORS.update({"C12": gen_C12, "C13": gen_C13, "C14": gen_C14})


# ------------------------------------------------------------------ C16 / C17 / C18 (CSV, rendering)
FALSE_SP = ["0", "F", "false", "False"]; TRUE_SP = ["1", "T", "true", "True"]
SCHEMES = [lambda i, j: 0, lambda i, j: 1, lambda i, j: 2, lambda i, j: 3, lambda i, j: (i + 2 * j) % 4, lambda i, j: (3 * i + j + 1) % 4]


def csv_text(names, rows, header, eol="\n", last_eol=True, result="result"):
    lines = ([",".join(list(names) + [result])] if header else []) + [",".join(r) for r in rows]
    return eol.join(lines) + (eol if last_eol else "")


def spelled(rows, scheme):
    return [[(TRUE_SP if b else FALSE_SP)[scheme(i, j)] for j, b in enumerate(r)] for i, r in enumerate(rows)]


def csv_mutations(names, rows, header):
    lines = ([list(names) + ["result"]] if header else []) + [list(r) for r in rows]
    fd = 1 if header else 0
    def txt(ls, eol="\n", last=True): return eol.join(",".join(l) for l in ls) + (eol if last else "")
    yield "valid", txt(lines)
    for i in range(fd, len(lines)):
        yield "drop_row", txt(lines[:i] + lines[i + 1:])
        yield "dup_row", txt(lines[:i] + [lines[i]] + lines[i:])
        for j in range(fd, len(lines)):
            if i != j:
                l2 = list(lines); l2[i] = lines[j]; yield "replace_row", txt(l2)
                if i < j:
                    l3 = list(lines); l3[i], l3[j] = l3[j], l3[i]; yield "swap_rows", txt(l3)
        for c in range(len(lines[i])):
            l2 = [list(l) for l in lines]; del l2[i][c]; yield "drop_cell", txt(l2)
            l2 = [list(l) for l in lines]; l2[i].insert(c, "1"); yield "add_cell", txt(l2)
            for bad in ("2", "", "x", "TRUE", " 1", "1 ", "tru", "falſe"):
                l2 = [list(l) for l in lines]; l2[i][c] = bad; yield "corrupt_cell", txt(l2)
            l2 = [list(l) for l in lines]; l2[i][c] = '"' + l2[i][c] + '"'; yield "quoted_cell", txt(l2)
    if header:
        for c in range(len(names)):
            for d in range(len(names)):
                if c != d:
                    l2 = [list(l) for l in lines]; l2[0][c] = l2[0][d]; yield "dup_header", txt(l2)
        for v in ("0", "1", "T", "true", "False", "TRUE", "", "result "):
            l2 = [list(l) for l in lines]; l2[0][-1] = v; yield "output_name", txt(l2)
        for c in range(len(names)):
            for v in ("", "0", "true", "a b", '"q,r"', '"l1\nl2"', '"d""q"', 'x"y', " a", "é", "漢"):
                l2 = [list(l) for l in lines]; l2[0][c] = v; yield "header_cell", txt(l2)
    for tag, t in [("blank_lines", txt(lines) + "\n\n"), ("blank_lines", "\n\n" + txt(lines)), ("blank_lines", txt(lines, "\n\n")),
                   ("crlf", txt(lines, "\r\n")), ("crlf", txt(lines, "\r\n", False)), ("cr", txt(lines, "\r")), ("cr", txt(lines, "\n\r")),
                   ("no_final_eol", txt(lines, "\n", False)), ("trailing_ws", txt(lines) + " "), ("trailing_ws", txt(lines) + " \n"),
                   ("leading_ws", " " + txt(lines)), ("bom", "﻿" + txt(lines)), ("bom", "﻿﻿" + txt(lines)),
                   ("stray", txt(lines) + ","), ("stray", txt(lines) + '"'), ("stray", txt(lines, ",\n")),
                   ("other_delim", txt(lines).replace(",", ";")), ("stray", txt(lines).replace(",", ",,", 1))]:
        yield tag, t


def gen_C16(tier, rng):
    texts = []; dist = collections.Counter(); seen = set()
    def add(t, tag, nt=True):
        if t in seen: return
        seen.add(t); texts.append((t, nt)); dist[tag] += 1
    NAMES_ = {0: [], 1: ["a"], 2: ["a", "b"]}
    for n in (0, 1, 2):
        pts = list(itertools.product([0, 1], repeat=n))
        for outs in itertools.product([0, 1], repeat=2 ** n):
            base = [list(p) + [o] for p, o in zip(pts, outs)]
            for cperm in itertools.permutations(range(n)):
                names = [NAMES_[n][c] for c in cperm]
                rows_c = [[r[c] for c in cperm] + [r[-1]] for r in base]
                for rperm in itertools.permutations(range(len(rows_c))):
                    rows = [rows_c[i] for i in rperm]
                    for header in (True, False):
                        for k, sch in enumerate(SCHEMES):
                            if n == 2 and (tier == "quick") and (sum(rperm[:2]) + k + sum(outs)) % 4: continue
                            add(csv_text(names, spelled(rows, sch), header, last_eol=(k % 2 == 0)), "perm_vars%d" % n, n >= 1)
    pts = list(itertools.product([0, 1], repeat=3))
    for _ in range(150 if tier == "quick" else 3000):
        outs = [rng.randint(0, 1) for _ in range(8)]
        names = rng.sample(["a", "b", "c"], 3) if rng.random() < .7 else rng.sample(["x_2", "x_10", "x_1"], 3)
        rows = [list(p) + [o] for p, o in zip(pts, outs)]; rng.shuffle(rows)
        add(csv_text(names, spelled(rows, rng.choice(SCHEMES)), rng.random() < .6, last_eol=rng.random() < .5), "three_vars_sampled")
    # wide files (5-9 input columns): header in a random column order, rows shuffled; and the same with one fault
    for nvw in ([5, 6, 7, 8, 9] if tier == "quick" else [5, 6, 7, 8, 9, 10, 11]):
        ptsw = list(itertools.product([0, 1], repeat=nvw))
        namesw = ["v%d" % i for i in range(nvw)]; rng.shuffle(namesw)
        rowsw = [list(p) + [1 if (p[0] and not p[-1]) or (p[nvw // 2] and p[1]) else 0] for p in ptsw]; rng.shuffle(rowsw)
        add(csv_text(namesw, spelled(rowsw, rng.choice(SCHEMES)), True), "wide_header_%d" % nvw)
        add(csv_text([], spelled(rowsw, SCHEMES[1]), False), "wide_headerless_%d" % nvw)
        dup = list(rowsw); dup[rng.randrange(len(dup))] = dup[rng.randrange(len(dup))]      # a repeated combination (or unchanged)
        add(csv_text(namesw, spelled(dup, SCHEMES[0]), True), "wide_repeated_%d" % nvw)
        add(csv_text(namesw, spelled(rowsw[:-1], SCHEMES[0]), True), "wide_missing_%d" % nvw)
    pts4 = list(itertools.product([0, 1], repeat=4))
    rows = [list(p) + [rng.randint(0, 1)] for p in pts4]; rng.shuffle(rows)
    add(csv_text([], spelled(rows, SCHEMES[0]), False), "headerless_4")
    for n, names in ((1, ["a"]), (2, ["b", "a"]), (2, ["x_0", "x_1"])):
        pts = list(itertools.product([0, 1], repeat=n))
        for outs in ([0, 1, 1, 0][: 2 ** n], [1] * 2 ** n):
            rows = spelled([list(p) + [o] for p, o in zip(pts, outs)], SCHEMES[4])
            for header in (True, False):
                for tag, t in csv_mutations(names, rows, header): add(t, "mut_" + tag)
    # headerless text with 11 input columns: x_10 sorts before x_2, the column of each name matters
    pts11 = list(itertools.product([0, 1], repeat=11))
    rows11 = [list(p) + [1 if (p[2] and not p[10]) or (p[5] and p[9]) else 0] for p in pts11]
    if tier != "quick": rng.shuffle(rows11)
    add(csv_text([], spelled(rows11, SCHEMES[0]), False), "headerless_11_columns")
    for ncol in (1, 2, 62, 63, 64, 65, 66, 70, 130):
        hdr = ",".join(["v%d" % i for i in range(ncol - 1)] + ["result"])
        for t in (hdr, hdr + "\n", hdr + "\n" + ",".join(["1"] * ncol) + "\n", ",".join(["1"] * ncol) + "\n",
                  ",".join(["1"] * ncol) + "\n" + ",".join(["0"] * ncol) + "\n", hdr + "\n" + ",".join(["1"] * (ncol - 1) + ["x"]) + "\n"):
            add(t, "wide_header")
    ALPH = ["0", "1", ",", ",", "\n", "\n", "\r", '"', " ", "T", "F", "a", "b", "x", "_", "true", "false", "result", "﻿", "é", "\t", "0,1", "1,0\n", "0,0\n", "a,r\n"]
    for _ in range(1500 if tier == "quick" else 20000):
        add("".join(rng.choice(ALPH) for _ in range(rng.randint(0, 14))), "random_text")
    for s_ in ["", "\n", "\r", " ", ",", '"', '""', "1", "0\n", "T\nF", "r", "r\n1", "r\n1\n0", "1\n1", '"1"', '"1', '1"', "0,1\n1,0\n", "a,r\n0,1\n0,0\n",
               "a,r\n0,1\n1,0\n\n\n", "a,b,result", "x_1,x_0,r\n0,1,1\n1,0,0\n0,0,0\n1,1,1", '"x\ny",r\n0,1\n1,1', '"a,b",r\n0,1\n1,0']:
        add(s_, "special")
    cases = []
    for k in range(0, len(texts), 25):
        c = Case("c16_%d" % (k // 25)); nt = False
        for t, f in texts[k:k + 25]:
            for w in ("str", "file"):
                r = c.r("csvin %s %s" % (w, hexname(t))); c.q("obs %d" % r)
            nt = nt or f
        cases.append(c.done(c.id, nt))
    return {"cases": cases, "exhaustive": True, "dist": dict(dist),
            "rule": "every table of <= 2 variables x every column permutation x every row permutation x header present/absent x six per-cell spelling schemes (quick: a quarter of the 2-variable ones); sampled 3-variable tables with shuffled rows; every single-fault mutation of six base files (drop / duplicate / replace / swap a row, drop / add / corrupt / quote a cell, duplicate header name, Boolean spelling as output name, odd header cells, blank lines, CRLF / CR, BOM, stray delimiters); header-only and data texts with 1..130 columns; random text; each text through from_csv_string AND from_csv_file; accept/reject and error variant compared with the model (proved: accepted iff the records describe a complete unambiguous table), the imported table with the table the records describe; %d texts; non-trivial = at least one variable; distinct = text" % len(texts)}


def table_regs(c, names, tv):
    """a table with exactly these input names and this truth vector"""
    e = gen.expr_of_tv(sorted(names), tv, "dnf")
    r0 = c.r("expr " + pe(e)); return c.r("conv T %d" % r0)


FMT = "NCWK"


def gen_C17(tier, rng):
    cases = []; dist = collections.Counter(); n_ = 0
    namesets = [["a", "b", "c", "d"], ["x_0", "x_1", "x_10", "x_2"], sorted(["é", "漢", "ü", "ñ"]), sorted(["longvariablename1", "q", "zz", "k9"]),
                sorted(["result", "Result", "res", "output"]), sorted(["result", "a", "r", "x"])]
    maxv = 3 if tier == "quick" else 4
    for nv in range(0, maxv + 1):
        for tv in gen.all_tvs(nv):
            for k, ns in enumerate(namesets):
                if nv == 0 and k: continue
                if nv >= 3 and (int(tv, 2) + k) % (5 if tier == "quick" else 3): continue
                c = Case("c17_%d" % n_); n_ += 1
                t = table_regs(c, ns[:nv], tv)
                for fi in FMT:
                    for fo in FMT:
                        c.q("csvout %d %s %s" % (t, fi, fo))
                c.q("csvdef %d" % t)
                dist["vars%d_names%d" % (nv, k)] += 1
                cases.append(c.done("%d/%s/%d" % (nv, tv, k), True))
    # wide tables (5-10 inputs, thorough 12): more than 64 / 256 / 1024 data lines
    for nv in ([5, 6, 7, 8, 9, 10] if tier == "quick" else [5, 6, 7, 8, 9, 10, 11, 12]):
        for rep in range(1 if tier == "quick" else 3):
            c = Case("c17_w%d_%d" % (nv, rep))
            r0 = c.r("expr " + pe(sparse_wide(rng, nv, cnf=(rep % 2 == 1)))); t = c.r("conv T %d" % r0)
            c.q("csvdef %d" % t)
            for _ in range(2): c.q("csvout %d %s %s" % (t, rng.choice(FMT), rng.choice(FMT)))
            dist["wide%d" % nv] += 1
            cases.append(c.done("wide%d/%d" % (nv, rep), True))
    # tables that are the result of operations (restriction of several variables, quantifiers, substitution, connectives)
    for k_ in range(60 if tier == "quick" else 600):
        c = Case("c17_h%d" % k_)
        nv = rng.randint(3, 5); vs = gen.NAMES[:nv]
        t0 = table_regs(c, vs, "".join(rng.choice("01") for _ in range(1 << nv)))
        t1 = table_regs(c, rng.sample(gen.NAMES[:6], 2), "".join(rng.choice("01") for _ in range(4)))
        derived = [c.r("restrict %d %s" % (t0, val_tokens([(x, rng.random() < 0.5) for x in rng.sample(vs, rng.randint(1, nv))] + ([("zz", True)] if rng.random() < 0.3 else [])))),
                   c.r("%s %d %s" % (rng.choice(["exists", "forall", "deriv"]), t0, set_tokens(sorted(rng.sample(vs, rng.randint(1, 2)))))),
                   c.r("op2 %s %s %d %d" % (rng.choice(["and", "or", "xor"]), rng.choice(FORMS), t0, t1)),
                   c.r("subst %d 1 %s %d" % (t0, hexname(rng.choice(vs)), t1))]
        derived.append(c.r("restrict %d %s" % (derived[2], val_tokens([(x, rng.random() < 0.5) for x in rng.sample(vs, 2)]))))
        for t in derived:
            c.q("csvdef %d" % t); c.q("csvout %d %s %s" % (t, rng.choice(FMT), rng.choice(FMT)))
        dist["derived_tables"] += 1
        cases.append(c.done("hist%d" % k_, True))
    c = Case("c17_empty"); t = c.r("csvin str -"); c.q("csvout %d W K" % t); c.q("csvdef %d" % t); c.q("obs %d" % t)
    cases.append(c.done("empty", True)); dist["empty_table"] += 1
    for ns in (["a,b"], ['a"b'], ['"ab"'], ["a\nb"], [" a "], ["﻿a"], ["0"], ["1", "true"]):
        for tv in gen.all_tvs(len(ns)):
            c = Case("c17_%d" % n_); n_ += 1
            t = table_regs(c, ns, tv); c.q("csvout %d N N" % t); c.q("csvout %d W C" % t)
            dist["unsafe_names_modelonly"] += 1
            cases.append(c.done("unsafe/%s/%s" % (ns, tv), False))
    return {"cases": cases, "exhaustive": tier != "quick", "dist": dict(dist),
            "rule": "every truth function of <= %d variables (3+ variables: every %s) over six name sets (ASCII, x_i with x_10 < x_2, non-ASCII, long, and names equal or close to the export's own column name `result`) x all 16 input/output Boolean formattings + the default to_csv: exported text compared byte for byte with the model, re-import compared with the table itself (C17_round_trip) ; sparse functions of 5-10 (12) inputs (hundreds to thousands of data lines); tables that are the result of restriction, quantification, connectives and substitution; the empty table; names that are not csv-safe (comma, quote, line break, BOM, Boolean spelling) compared with the model only; non-trivial = csv-safe names; distinct = (function, name set)" % (maxv, "fifth" if tier == "quick" else "third")}


def gen_C18(tier, rng):
    cases = []; dist = collections.Counter(); n_ = 0
    namesets = [["a", "b", "c"], sorted(["é", "漢", "ü"]), sorted(["x́y", "ＷＩＤＥ", "k"]), sorted(["longvariablename1", "q", "r"]), sorted(["ěýáíé", "ščřžň", "ö"]),
                sorted(["c-d", "e_f", "+-"]),
                # names exactly as wide as the other cells of a rendering (`true` 4, `false` 5, `result` 6): anything
                # keyed or cached by a column's width confuses columns only then (seed R06_13)
                sorted(["abcd", "alpha1", "fghij"]), sorted(["ab", "žluťák", "漢字漢"])]
    unclean = [sorted(["a b", "c"]), sorted(["l1\nl2", "z"]), sorted(["", "k"]), sorted(["|", "│"])]
    for nv in range(0, 4):
        for tv in gen.all_tvs(nv):
            for k, ns in enumerate(namesets):
                if nv == 0 and k: continue
                if nv == 3 and (int(tv, 2) + k) % (6 if tier == "quick" else 2): continue
                c = Case("c18_%d" % n_); n_ += 1
                t = table_regs(c, ns[:nv], tv)
                for st in "AMDE":
                    for fi in FMT:
                        for fo in FMT:
                            if tier == "quick" and nv >= 2 and (FMT.index(fi) + FMT.index(fo) + int(tv, 2)) % 4: continue
                            c.q("render %d %s %s %s" % (t, st, fi, fo))
                c.q("display %d" % t)
                dist["vars%d_names%d" % (nv, k)] += 1
                cases.append(c.done("%d/%s/%d" % (nv, tv, k), True))
    for ns in unclean:
        for tv in ["0110", "1000"]:
            c = Case("c18_%d" % n_); n_ += 1
            t = table_regs(c, ns, tv)
            for st in "AMDE": c.q("render %d %s W N" % (t, st))
            c.q("display %d" % t)
            dist["unclean_names_modelonly"] += 1
            cases.append(c.done("unclean/%s/%s" % (ns, tv), False))
    # wide tables (5-8 inputs, thorough 10): hundreds of rows
    for nv in ([5, 6, 7, 8] if tier == "quick" else [5, 6, 7, 8, 9, 10]):
        c = Case("c18_w%d" % nv)
        r0 = c.r("expr " + pe(sparse_wide(rng, nv))); t = c.r("conv T %d" % r0)
        for st in rng.sample("AMDE", 2): c.q("render %d %s %s %s" % (t, st, rng.choice(FMT), rng.choice(FMT)))
        c.q("display %d" % t)
        dist["wide%d" % nv] += 1
        cases.append(c.done("wide%d" % nv, True))
    c = Case("c18_empty"); t = c.r("csvin str -")
    for st in "AMDE": c.q("render %d %s N W" % (t, st))
    c.q("display %d" % t); cases.append(c.done("empty", True)); dist["empty_table"] += 1
    return {"cases": cases, "exhaustive": tier != "quick", "dist": dict(dist),
            "rule": "every truth function of <= 3 variables over eight name sets of differing display widths (ASCII, Latin with diacritics, CJK wide, combining mark, full-width, long, names with - _ +, names exactly as wide as the cells true / false / result) x 4 styles x 16 Boolean formattings (quick: a quarter of the formattings for 2+ variables, every sixth 3-variable function): rendered text compared byte for byte with the model of tabled; cells read back from the REAL output by an independent splitter compared with header + one formatted row per domain point (the relation); Display = frameless / word / word; sparse functions of 5-8 (10) inputs; names with blanks, line breaks, empty or border glyphs compared with the model only; non-trivial = clean names; distinct = (function, name set)"}


GENERATORS.update({"C16": gen_C16, "C17": gen_C17, "C18": gen_C18})


# ------------------------------------------------------------------ C20
def gen_C20(tier, rng):
    cases = []; dist = collections.Counter()
    nprog = 250 if tier == "quick" else 4000
    for n in range(nprog):
        c = Case("c20_%d" % n)
        names = gen.NAMES[: rng.randint(2, 5)]
        kinds = random_program(rng, c, rng.randint(5, 20), names, allow_tb=(n % 4 == 0))
        # observe everything again at the end, in a shuffled order: enumerations, sat points, text forms
        order = list(range(len(kinds))); rng.shuffle(order)
        for i in order:
            c.q("enum %d" % i); c.q("obs %d" % i)
            if kinds[i] == "T":
                c.q("csvdef %d" % i); c.q("render %d %s %s %s" % (i, rng.choice("AMDE"), rng.choice("NCWK"), rng.choice("NCWK"))); c.q("display %d" % i)
            if kinds[i] == "E": c.q("show %d" % i)
        for ln in c.lines:
            if ln.startswith("r "): dist[ln.split()[1]] += 1
        cases.append(c.done("prog%d" % n, True))
    # every conversion of every function of <= 3 variables (and a few wider conjunctions / disjunctions of literals):
    # computed twice in the process and again in other processes -- the conversions go through hash containers of lib-bdd
    n_ = 0
    shapes = [(["a", "b", "c"][:nv], tv) for nv in range(0, 4) for tv in gen.all_tvs(nv)]
    for k_ in range(0, len(shapes), 8):
        c = Case("c20_c%d" % n_); n_ += 1
        for vs, tv in shapes[k_:k_ + 8]:
            r0 = c.r("expr " + pe(gen.expr_of_tv(vs, tv, "dnf"))); r1 = c.r("conv B %d" % r0); r2 = c.r("conv E %d" % r1)
            r3 = c.r("conv T %d" % r1); r4 = c.r("conv E %d" % r3); r5 = c.r("conv B %d" % r2)
            for r in (r1, r2, r3, r4, r5): c.q("obs %d" % r)
            c.q("show %d" % r2); c.q("enum %d" % r1)
        dist["all_conversions"] += 1
        cases.append(c.done("conv%d" % k_, True))
    for width in (2, 3, 4, 5, 6, 8):
        c = Case("c20_cw%d" % width)
        vs = gen.NAMES[:width]
        for e in (gen.A([gen.L(x) for x in vs]), gen.A([gen.L(x) if i % 2 else gen.Nn(gen.L(x)) for i, x in enumerate(vs)]),
                  gen.O([gen.L(x) for x in vs]), gen.O([gen.A([gen.L(vs[0]), gen.L(x)]) for x in vs[1:]])):
            r0 = c.r("expr " + pe(e)); r1 = c.r("conv B %d" % r0)
            for _ in range(3):
                r2 = c.r("conv E %d" % r1); c.q("show %d" % r2); c.q("obs %d" % r2)
        dist["literal_clauses"] += 1
        cases.append(c.done("convw%d" % width, True))
    # rejected CSV text: the error value (variant and message, e.g. WHICH name is reported as repeated) is a result too;
    # headers with several different repeated names, ragged and incomplete tables, through both entry points, each
    # read three times per process (and again in the other processes)
    bad_csv = ["a,b,a,b,r\n0,0,0,0,1\n", "x,y,z,w,z,y,x,r\n", "b,a,b,a,c,c,r\n0,0,0,0,0,0,1\n", "a,a,r\n0,0,1\n", "q,p,q,p,q,r\n",
               "a,r\n0,1\n1\n", "a,r\n0,x\n1,0\n", "a,b,r\n0,0,1\n", "a,r\n0,1\n0,0\n", "a,r\n2,1\n1,0\n", "a b,a b,c,c,r\n"]
    for k_, t_ in enumerate(bad_csv):
        c = Case("c20_csv%d" % k_)
        for _ in range(3):
            for w in ("str", "file"):
                r = c.r("csvin %s %s" % (w, hexname(t_))); c.q("obs %d" % r)
        dist["csv_errors"] += 1
        cases.append(c.done("csv_err%d" % k_, True))
    # history dependence: many short-lived objects; normal forms are computed and dropped at once, so that any
    # hidden cache keyed by addresses or by earlier calls shows up as a result that depends on what ran before
    for n in range(60 if tier == "quick" else 600):
        c = Case("c20_h%d" % n)
        for _ in range(40):
            e = gen.rand_tree(rng, rng.randint(1, 4), ["a", "b", "c"], max_arity=3, consts=rng.random() < 0.3, empties=False)
            if rng.random() < 0.5: e = gen.Nn(e)
            r0 = c.r("expr " + pe(e)); c.q("nf %d" % r0)
            if rng.random() < 0.3: c.q("nf %d" % rng.randint(0, r0))
        dist["history_streams"] += 1
        cases.append(c.done("hist%d" % n, True))
    # aliasing: the same object as both operands, and objects that came back from operations with nothing to do
    # (a foreign variable), combined with their origin. The second execution of every line (--twice) runs on
    # node-by-node rebuilt copies, so a result that depends on the *identity* of its arguments shows as det=0
    for n in range(40 if tier == "quick" else 400):
        c = Case("c20_a%d" % n)
        for kind_ in "ETB":
            e = gen.rand_tree(rng, rng.randint(1, 3), ["a", "b", "c"], max_arity=3, consts=rng.random() < 0.2, empties=False)
            r0 = c.r("expr " + pe(e))
            if kind_ != "E": r0 = c.r("conv %s %d" % (kind_, r0))
            same = [r0, c.r("restrict %d %s" % (r0, val_tokens({"zz": True}))), c.r("exists %d %s" % (r0, set_tokens(["zz"]))),
                    c.r("forall %d %s" % (r0, set_tokens(["zz"]))), c.r("restrict %d %s" % (r0, val_tokens({})))]
            lit = c.r("expr " + pe(gen.L("q")))
            if kind_ != "E": lit = c.r("conv %s %d" % (kind_, lit))
            same.append(c.r("subst %d 1 %s %d" % (r0, hexname("zz"), lit)))
            for x in same:
                for o in ("and", "or", "xor", "imply", "iff"):
                    form = rng.choice(["val", "ref", "assign", "mixed"]) if o in ("and", "or", "xor") else "val"
                    k = c.r("op2 %s %s %d %d" % (o, form, r0, x)); c.q("obs %d" % k)
                    if kind_ == "E": c.q("show %d" % k)
                if kind_ == "E":
                    k = c.r("binary %s %d %d" % (rng.choice(["and", "or"]), r0, x)); c.q("show %d" % k)
                    k = c.r("nary %s 3 %d %d %d" % (rng.choice(["and", "or"]), x, r0, x)); c.q("show %d" % k)
                c.q("equiv %d %d" % (r0, x))
        dist["aliasing"] += 1
        cases.append(c.done("alias%d" % n, True))
    # parser history: a keyword-like identifier followed by the keyword itself (and back), in one process
    suffixes = ["y", "_", "1", "hood", "-x", "B"]
    seqs = []
    for w in WORDS:
        for v_ in case_variants(w, False):
            for suf in suffixes:
                seqs.append([v_ + suf + " & b", v_ + " | a", v_ + suf, v_, "(" + v_ + ")", v_ + suf + " | " + v_])
    # strings that differ only in blanks / braces / letter case and must not be confused by anything keyed on a normal form
    twins = [("not a", "nota"), ("a b", "ab"), ("{a b} & c", "{ab} & c"), ("x y | z", "xy | z"), ("a &b", "a&b"), ("! a", "!a"), ("a | B", "a | b"),
             ("{a}", "a"), ("{true}", "true"), ("(a)", "a"), ("a & b & c", "a & (b & c)"), ("a&b|c", "a&(b|c)"), ("TRUE", "true"), ("{A}", "{a}")]
    for s1, s2 in twins:
        seqs.append([s1, s2, s1]); seqs.append([s2, s1, s2])
    rng.shuffle(seqs)
    for k_ in range(0, len(seqs), 6):
        c = Case("c20_p%d" % (k_ // 6))
        for sq in seqs[k_:k_ + 6]:
            for s_ in sq: c.q("parse %s" % hexname(s_))
        dist["parser_history"] += 1
        cases.append(c.done(c.id, True))
    return {"cases": cases, "exhaustive": False, "dist": dict(dist),
            "rule": "random programs as for C15; every instruction and every observation (structure, Debug form, enumerations incl. support order and sat point, CSV / rendered / printed text) is computed twice within one process and again in further separate processes with fresh hash seeds; all must be identical, and the operand registers are observed again after all later instructions, in shuffled order; the second execution runs on node-by-node rebuilt copies of all registers (equal arguments, different objects), with aliasing programs (the same register as both operands; results of operations that had nothing to do combined with their origin); plus every conversion of every function of <= 3 variables and of conjunctions / disjunctions of 2-8 literals; plus parser histories (an identifier that starts with a keyword, then the keyword itself, for every keyword spelling), plus streams of 40 short-lived expressions whose normal forms are computed and dropped at once (hidden caches keyed by addresses or earlier calls), plus a source scan for interior mutability; non-trivial = all; distinct = program; every new register is probed in place with the &self methods of the public API and must still == the clone taken before and keep its Debug text; eleven rejected CSV texts (several different repeated header names, ragged, incomplete, non-Boolean) read three times per process through both entry points, error messages compared"}


GENERATORS.update({"C20": gen_C20})


# ------------------------------------------------------------------ C19 (Python bindings)
def gen_C19(tier, rng):
    """scripted call sequences restricted to what the Python classes expose; executed by the Python module,
    the Rust harness and the model"""
    cases = []; dist = collections.Counter(); n = 0
    def py_reps(c, e):
        r0 = c.r("expr " + pe(e)); r1 = c.r("conv T %d" % r0); r2 = c.r("conv B %d" % r0); return [r0, r1, r2]
    universe = ["a", "b", "c", "z"]
    vals = list(gen.partial_valuations(universe))
    subsets = [list(s) for k in range(4) for s in itertools.combinations(universe, k)]
    nprog = 220 if tier == "quick" else 3000
    for _ in range(nprog):
        c = Case("c19_%d" % n); n += 1
        nv = rng.randint(0, 3); vs = ["a", "b", "c"][:nv]
        tv = "".join(rng.choice("01") for _ in range(1 << nv))
        e = gen.expr_of_tv(vs, tv, rng.choice(["dnf", "cnf", "mix"])) if rng.random() < 0.6 else gen.rand_tree(rng, 3, ["a", "b", "c"], max_arity=3)
        regs = py_reps(c, e)
        g = gen.rand_tree(rng, 2, ["a", "b", "d"], max_arity=2, consts=False, empties=False)
        gregs = py_reps(c, g)
        lit_regs = {v_: py_reps(c, gen.L(v_)) for v_ in ("a", "b", "c")}
        swaps = [{v_: lit_regs[v_][i_] for v_ in ("a", "b", "c")} for i_ in range(3)]
        for r in regs:
            c.q("obs %d" % r); c.q("enum %d" % r); c.q("repr %d" % r); c.q("pyfrom %d" % r)
            for v in rng.sample(vals, 3):
                for d in ("0", "1", "-"): c.q("eval %d %s %s" % (r, d, val_tokens(v)))
        c.q("preds %d" % regs[0]); c.q("show %d" % regs[0]); c.q("pycopy %d" % regs[0])
        c.q("csvdef %d" % regs[1]); c.q("display %d" % regs[1])
        f = rng.choice("NCWK"); c.q("render %d %s %s %s" % (regs[1], rng.choice("AMDE"), f, f))
        c.q("row %d %d" % (regs[1], rng.randint(0, max(0, (1 << len(gen.lits(e))) - 1))))
        for i, (x, y) in enumerate(zip(regs, gregs)):
            c.q("equiv %d %d" % (x, y)); c.q("implied %d %d" % (x, y)); c.q("semeq %d %d" % (x, y))
            k = c.r("restrict %d %s" % (x, val_tokens(rng.choice(vals)))); c.q("obs %d" % k)
            for op in ("exists", "forall", "deriv"):
                k = c.r("%s %d %s" % (op, x, set_tokens(rng.choice(subsets)))); c.q("obs %d" % k)
            key = rng.choice(["a", "b", "d", "z"])
            k = c.r("subst %d 1 %s %d" % (x, hexname(key), y)); c.q("obs %d" % k)
            # several keys at once, replacements that mention other keys (swap, chain): simultaneous composition
            k1, k2 = rng.sample(["a", "b", "c"], 2)
            k = c.r("subst %d 2 %s %d %s %d" % (x, hexname(k1), swaps[i][k2], hexname(k2), swaps[i][k1])); c.q("obs %d" % k)
            k = c.r("subst %d 3 %s %d %s %d %s %d" % (x, hexname("a"), swaps[i]["b"], hexname("b"), swaps[i]["c"], hexname("c"), swaps[i]["a"])); c.q("obs %d" % k)
            k = c.r("op1 not %d" % x); c.q("obs %d" % k)
            if i == 0:
                for o in ("and", "or"):
                    k = c.r("binary %s %d %d" % (o, x, y)); c.q("obs %d" % k); c.q("show %d" % k)
                k = c.r("nary %s 3 %d %d %d" % (rng.choice(["and", "or"]), x, y, x)); c.q("show %d" % k)
                k = c.r("negate %d" % x); c.q("show %d" % k)
                for o in ("nnf", "cnf", "dnf"):
                    k = c.r("op1 %s %d" % (o, x)); c.q("show %d" % k); c.q("preds %d" % k)
            else:
                for o in ("and", "or", "xor"):
                    k = c.r("op2 %s val %d %d" % (o, x, y)); c.q("obs %d" % k)
            # conversions back and forth (the table -> diagram one is known finding D1 on both sides)
            for tgt in "ETB":
                k = c.r("conv %s %d" % (tgt, x)); c.q("obs %d" % k)
        # comparisons whose answer is YES: the same function declared over one more input (sorting before, between
        # or after the others), in both directions and with itself -- a random pair is almost never equivalent
        pad_ = ["0", "ab", "zz"][n % 3]    # no draw from rng: the programs that follow stay what they were
        pregs = py_reps(c, gen.A([e, gen.O([gen.L(pad_), gen.Nn(gen.L(pad_))])]))
        for x, y in zip(regs, pregs):
            for a_, b_ in ((x, y), (y, x), (x, x)):
                c.q("equiv %d %d" % (a_, b_)); c.q("implied %d %d" % (a_, b_)); c.q("semeq %d %d" % (a_, b_))
        k = c.r("mkconst E %d" % rng.randint(0, 1)); c.q("show %d" % k)
        k = c.r("mkconst B %d" % rng.randint(0, 1)); c.q("enum %d" % k)
        k = c.r("mkliteral E %s %d" % (hexname("q"), rng.randint(0, 1))); c.q("show %d" % k)
        k = c.r("mkliteral B %s %d" % (hexname("q"), rng.randint(0, 1))); c.q("enum %d" % k)
        dist["program"] += 1
        cases.append(c.done(c.id, True))
    # long enumerations: iterators of the three classes over more than 64 / 128 / 256 items (wide functions)
    for nv in (7, 8, 9):
        vs = ["x%d" % i for i in range(1, nv + 1)]
        big_or = gen.O([gen.L(x) for x in vs])
        par = gen.L(vs[0])
        for x in vs[1:]: par = gen.O([gen.A([par, gen.Nn(gen.L(x))]), gen.A([gen.Nn(par), gen.L(x)])])
        sparse = gen.O([gen.A([gen.L(vs[0]), gen.Nn(gen.L(vs[-1]))]), gen.A([gen.L(vs[2]), gen.L(vs[3])])])
        for nm, e in (("or", big_or), ("parity", par), ("sparse", gen.A([sparse] + [gen.O([gen.L(x), gen.Nn(gen.L(x))]) for x in vs]))):
            if nm == "parity" and nv > 8: continue
            c = Case("c19_w%d%s" % (nv, nm))
            for r in py_reps(c, e):
                c.q("obs %d" % r); c.q("enum %d" % r)
            dist["wide"] += 1
            cases.append(c.done(c.id, True))
    # one n-ary node of many operands through mk_and_n_ary / mk_or_n_ary and on to a diagram
    for width in (17, 33, 60):
        for cj in ("and", "or"):
            c = Case("c19_n%d%s" % (width, cj))
            vs = ["y%02d" % i for i in range(width)]
            regs_ = [c.r("mkliteral E %s %d" % (hexname(x), 1)) for x in vs]
            k = c.r("nary %s %d %s" % (cj, width, " ".join(map(str, regs_)))); c.q("show %d" % k)
            b = c.r("conv B %d" % k)
            for i in (0, width - 1, width // 2):
                v = [(x, (j == i) if cj == "or" else (j != i)) for j, x in enumerate(vs)]
                for r in (k, b):
                    for d in ("0", "1", "-"): c.q("eval %d %s %s" % (r, d, val_tokens(v)))
            c.q("weight %d %d" % (b, 1 if cj == "and" else (1 << width) - 1))
            dist["wide_nary"] += 1
            cases.append(c.done(c.id, True))
    # parsing through the constructor, exception kinds
    strings = ["a & b", "a | !b & c", "(a", "a &", "", "a b", "{x y} | t", "a ∧ ¬b", "NOT a", "true", "F", "a & & b", "}", "((a))", "v", "a v b"]
    # one or more strings for every error kind the parser can construct (the exception kind is per variant in the wrappers)
    strings += ["a)", ")", "(a))", "((a)", "(", "a}", "{a}}", "{a", "{", "a & {b", "{}", "a & {}", "{} | b", "({})", "a $ b", "?", "a # b", "a & ", "& a", "a | | b",
                "!", "a !", "()", "a (b)", "{a}{b}", "a {b}", "1 0", "\t", " ", "a &\n", "¬", "a ∧", "∨ a"]
    for _ in range(60 if tier == "quick" else 600): strings.append(rnd_sentence(rng, rng.randint(1, 3)))
    for k in range(0, len(strings), 20):
        c = Case("c19_p%d" % k)
        for s_ in strings[k:k + 20]:
            c.q("parse %s" % hexname(s_)); r = c.r("parse %s" % hexname(s_)); c.q("show %d" % r)
        for a in ("int", "none", "list", "float", "bytes"): c.q("pyctor %s" % a)
        c.q("pyvars %s %s" % (hexname("x"), hexname("y1")))
        dist["parse"] += 1
        cases.append(c.done(c.id, True))
    # CSV import through both entry points, error kinds
    texts = ["a,r\n0,1\n1,0\n", "0,1\n1,0\n", "", "a,r\n0,1\n", "a,a,r\n0,0,1\n0,1,1\n1,0,0\n1,1,0\n", "a,r\n0,x\n1,0\n", "a,r\n0,1\n1\n", "a,b,result\n", "\n", "a,r\n0,1\n0,0\n", "a,r\n0,1\nx,0\n", "a,b,r\n0,0,1\n0,1,1\n1,0,0\n", "x y,r\n1,1\n0,0\n", "a,r\r\n0,T\r\n1,F", "a,r\n0,1\n1,0,1\n",
             ",".join(["v%d" % i for i in range(66)] + ["result"]) + "\n" + ",".join(["1"] * 67) + "\n", ",".join(["1"] * 70) + "\n"]
    for k in range(0, len(texts), 5):
        c = Case("c19_c%d" % k)
        for t_ in texts[k:k + 5]:
            for w in ("str", "file"):
                r = c.r("csvin %s %s" % (w, hexname(t_))); c.q("obs %d" % r); c.q("csvdef %d" % r)
        if k == 0: r = c.r("csvin missing -"); c.q("obs %d" % r)
        dist["csv"] += 1
        cases.append(c.done(c.id, True))
    # the documented refusal surfaces as an exception too
    c = Case("c19_refuse"); regs = py_reps(c, gen.A([gen.L("a"), gen.L("b")])); g = py_reps(c, gen.O([gen.L("a"), gen.L("c")]))
    k = c.r("subst %d 1 %s %d" % (regs[2], hexname("a"), g[2])); c.q("obs %d" % k)
    cases.append(c.done(c.id, True)); dist["refusal"] += 1
    return {"cases": cases, "exhaustive": False, "dist": dict(dist),
            "rule": "scripted call sequences over every method of the Python Expression / Table / Bdd classes (the method list is read from dir() of the built module; an uncalled method fails the check): construction, connectives, conversions, restriction, substitution, quantifiers, derivative, comparisons, evaluation in the three modes, iterators, text forms, CSV import with every error kind, parsing through the constructor, wrong constructor arguments; executed through the extension module built from /repo, the Rust API (harness) and the model; every value the Python call returns must equal the Rust one and exceptions must be of the documented kind; non-trivial = all; distinct = script; every program also compares each object with the same function declared over one more input (before / between / after), in both directions and with itself"}


GENERATORS.update({"C19": gen_C19})


# ------------------------------------------------------------------ awkward variable names
PLAIN_UNIVERSE = sorted(gen.NAMES + ["p", "q", "r", "z", "zz"] + ["x%d" % i for i in range(1, 13)], key=lambda s: s.encode())
AWKWARD = [" lead", "-k", "0", "10", "2", "A", "B10", "B2", "False", "T", "Z", "_", "_9", "a", "a b", "a.b", "aa", "ab", "b", "false", "ff",
           "not", "nota", "true", "v", "v1", "x_1", "x_10", "x_2", "z", "zz", "{", "~", "é", "ñandú", "Ω", "ж", "漢", "漢字", "😀", "😀a"]
assert AWKWARD == sorted(AWKWARD, key=lambda s: s.encode()) and len(AWKWARD) >= len(PLAIN_UNIVERSE)
RENAMED_PROPS = {"C01", "C02", "C03", "C04", "C05", "C06", "C07", "C08", "C09", "C10", "C11", "C15", "C20"}


def renamed_cases(prop, tier, seed, every=3):
    """the generator of a semantic property run again (same random stream, so the same cases) under a random
    ORDER-PRESERVING renaming of the plain names into awkward ones; every third case is kept. Order-preserving
    (Rust String order = UTF-8 byte order), so that alignments, foreign-variable positions etc. stay what the generator meant."""
    from . import common
    r = random.Random(seed * 7919 + 13)
    chosen = sorted(r.sample(range(len(AWKWARD)), len(PLAIN_UNIVERSE)))
    common.RENAME = {plain: AWKWARD[i] for plain, i in zip(PLAIN_UNIVERSE, chosen)}
    try:
        again = GENERATORS[prop](tier, random.Random(seed))
    finally:
        common.RENAME = {}
    out = []
    for c in again["cases"][r.randrange(every)::every]:
        c = dict(c); c["id"] = c["id"] + "n"; c["key"] = "renamed:" + str(c.get("key"))
        c["lines"] = list(c["lines"])
        out.append(c)
    return out
