"""One property check: proof gate, correspondence (Tier A), property oracle (Tier B), evidence."""
import collections, json, os, random, re, sys, time
from . import common, diff
from .common import COQ, ROOT

FORBIDDEN = re.compile(r"\b(Admitted|admit|Axiom|Axioms|Parameter|Parameters|Conjecture|Hypothesis|Variable|Variables|Hypotheses|Unset\s+Guard|bypass_check|type-in-type|impredicative-set)\b")

TRUSTED_BASE = [
    "Coq 8.16.1 kernel (coqc; vm_compute used only in Examples/refutation witnesses; no native_compute)",
    "axioms: none (Print Assumptions must answer 'Closed under the global context' for every property theorem)",
    "hand-written Gallina model of /repo (coq/Model/*.v); tied to the code only by the correspondence check on the generated cases",
    "biodivine-lib-bdd, regex, csv, tabled, std collections: modelled, not verified",
    "extraction with ExtrOcamlBasic only (no Extract Constant); OCaml driver, Rust harness, Python generators and diff are unverified glue",
]


def forbidden_scan():
    """no Admitted / admit / Axiom / Parameter / ... anywhere in the development; Variable and
    Hypothesis are allowed only inside Sections (checked by looking for an enclosing Section)."""
    bad = []
    for d, _, fs in os.walk(COQ):
        for f in fs:
            if not f.endswith(".v"): continue
            path = os.path.join(d, f)
            depth = 0
            text = open(path).read()
            text = re.sub(r"\(\*.*?\*\)", lambda m: " " * len(m.group(0)), text, flags=re.S)
            for n, line in enumerate(text.split("\n"), 1):
                if re.match(r"\s*Section\b", line): depth += 1
                if re.match(r"\s*End\b", line) and depth > 0: depth -= 1
                for m in FORBIDDEN.finditer(line):
                    w = m.group(1)
                    if w in ("Variable", "Variables", "Hypothesis", "Hypotheses") and depth > 0: continue
                    bad.append("%s:%d: %s" % (os.path.relpath(path, ROOT), n, line.strip()))
    return bad


def proof_gate(prop, tier="quick"):
    """(obligations, discharged, problems, theorem names)"""
    problems = []
    ok, out = common.build_coq(["Properties/%s.vo" % prop, "Pins/Pins_%s.vo" % prop])
    if not ok:
        problems.append("the Coq development does not build:\n" + out[-3000:])
        return 0, 0, problems, []
    src = os.path.join(COQ, "Properties", prop + ".v")
    theorems = re.findall(r"^\s*Theorem\s+(\w+)", open(src).read(), flags=re.M)
    tmp = os.path.join(common.BUILD, "gate")
    os.makedirs(tmp, exist_ok=True)
    rc, out = common.sh("timeout 600 coqc -Q . BBF -w -deprecated-hint-without-locality Properties/%s.v -o %s/%s.vo" % (prop, tmp, prop), cwd=COQ, timeout=700)
    if rc != 0:
        problems.append("Properties/%s.v does not compile:\n%s" % (prop, out[-3000:]))
        return len(theorems), 0, problems, theorems
    closed = out.count("Closed under the global context")
    if "Axioms:" in out or closed < len(theorems):
        problems.append("Print Assumptions reports assumptions (allow-list is empty):\n" + out[-3000:])
    bad = forbidden_scan()
    if bad:
        problems.append("forbidden declarations in the development:\n" + "\n".join(bad[:20]))
    if tier == "thorough" and not problems:
        # the independent checker re-checks the compiled property file and everything it depends on
        rc, out = common.sh("timeout 1500 coqchk -o -silent -Q . BBF BBF.Properties.%s" % prop, cwd=COQ, timeout=1600)
        if rc != 0 or "Axioms: <none>" not in out:
            problems.append("coqchk does not accept the property file or reports axioms:\n" + out[-2000:])
    return len(theorems), min(closed, len(theorems)) if not problems else 0, problems, theorems


def run_cases(prop, cases, impl_extra=""):
    paths = common.write_shards(prop, cases)
    impl, model, problems = common.run_both(paths, impl_extra=impl_extra)
    results = []
    for c in cases:
        ta, tb = [], []
        nlines = len(c["lines"])
        for ln in range(1, nlines + 1):
            a, b = diff.compare(impl.get((c["id"], ln)), model.get((c["id"], ln)), c["lines"][ln - 1])
            if a: ta.append((ln, a))
            if b: tb.append((ln, b))
        results.append((c, ta, tb))
    return results, impl, model, problems


def scan_interior_mutability():
    """supporting evidence for operand purity (not a proof): interior mutability and unsafe blocks in /repo/src"""
    hits = []
    pat = re.compile(r"\b(Cell|RefCell|OnceCell|OnceLock|LazyCell|LazyLock|Lazy|Once|Mutex|RwLock|Atomic\w+|UnsafeCell|thread_local|lazy_static|static\s+mut|unsafe)\b")
    for d, _, fs in os.walk("/repo/src"):
        for f in fs:
            if not f.endswith(".rs"): continue
            for n, line in enumerate(open(os.path.join(d, f), errors="replace"), 1):
                if line.lstrip().startswith("//"): continue
                if pat.search(line): hits.append("%s:%d: %s" % (os.path.relpath(os.path.join(d, f), "/repo"), n, line.strip()[:100]))
    return hits


def load_known():
    path = os.path.join(ROOT, "known_findings.json")
    if not os.path.exists(path): return []
    return [k for k in json.load(open(path)) if k.get("status") == "known"]


def dataflow(lines):
    """per line: (operand registers, defined register or None); per register: kind and the set of
    known-finding sources it descends from. The only listed source: 'conv_B_of_T' (D1)."""
    kinds, taint, per_line = [], [], []
    for ln in lines:
        t = ln.split()
        ops, src = [], set()
        if t[0] == "r":
            ins = t[1]
            if ins in ("expr", "parse"): k = "E"
            elif ins == "op1": ops = [int(t[3])]; k = None
            elif ins == "op2": ops = [int(t[4]), int(t[5])]; k = None
            elif ins in ("conv", "bigconv"):
                ops = [int(t[3])]; k = t[2]
                if k == "B" and ops[0] < len(kinds) and kinds[ops[0]] == "T": src.add("conv_B_of_T")
            elif ins in ("restrict", "exists", "forall", "deriv"): ops = [int(t[2])]; k = None
            elif ins == "subst":
                n = int(t[3]); ops = [int(t[2])] + [int(t[5 + 2 * i]) for i in range(n)]; k = None
            elif ins in ("mkconst", "mkliteral"): k = t[2]
            elif ins == "nary": n = int(t[3]); ops = [int(x) for x in t[4:4 + n]]; k = "E"
            elif ins == "binary": ops = [int(t[3]), int(t[4])]; k = "E"
            elif ins == "negate": ops = [int(t[2])]; k = "E"
            elif ins == "csvin": k = "T"
            else: k = "?"
            ops = [o for o in ops if o < len(kinds)]
            if k is None: k = kinds[ops[0]] if ops else "?"
            for o in ops: src |= taint[o]
            kinds.append(k); taint.append(src)
            per_line.append((ops, len(kinds) - 1))
        else:
            q = t[1]
            if q in ("equiv", "implied", "semeq"): ops = [int(t[2]), int(t[3])]
            elif q in ("obs", "enum", "eval", "preds", "show", "csvout", "csvdef", "render", "display", "fresh", "weight", "nf", "repr", "row", "pycopy", "pyfrom", "roundtrip"): ops = [int(t[2])]
            per_line.append(([o for o in ops if o < len(kinds)], None))
    return per_line, taint


def known_for_line(prop, case, ln, known, cache={}):
    """the listed known finding that explains a failure on line ln of the case, if any"""
    key = id(case)
    if key not in cache:
        cache.clear(); cache[key] = dataflow(case["lines"])
    per_line, taint = cache[key]
    ops, defined = per_line[ln - 1]
    srcs = set()
    for o in ops: srcs |= taint[o]
    if defined is not None: srcs |= taint[defined]
    for k in known:
        if prop in k["properties"] and k["source"] in srcs:
            return k
    return None


def defect_repaired(case, ta_lines, tb_lines):
    """True when, in this case, every direct observation of a register produced by the defective conversion (D1:
    `conv B` of a table) meets the specification although it differs from the model of the defect: the conversion
    itself is right here, so the defect seems repaired. The specification of *later* lines is computed along the
    model of the defect (declared inputs of expressions are structural), so their Tier B verdicts mean nothing
    then; what remains true is that the model and its theorems about the current conversion no longer describe the
    code, which is reported as a broken correspondence."""
    per_line, taint = dataflow(case["lines"])
    kinds_src = set()
    reg = -1
    for idx, ln in enumerate(case["lines"]):
        t = ln.split()
        if t[0] == "r":
            reg += 1
            if t[1] == "conv" and t[2] == "B":
                ops, _ = per_line[idx]
                # a source: the operand is a table (the only way the taint starts at this line)
                if "conv_B_of_T" in taint[reg] and not any("conv_B_of_T" in taint[o] for o in ops): kinds_src.add(reg)
    direct = [idx + 1 for idx, (ops, defined) in enumerate(per_line) if defined is None and ops and set(ops) <= kinds_src]
    if not direct: return False
    return all(l not in tb_lines for l in direct) and any(l in ta_lines for l in direct)


def classify(prop, results, known, known_hit):
    """(cases with a correspondence mismatch, cases with a property failure), known findings taken out"""
    tierA, tierB = [], []
    for c, ta, tb in results:
        # a failure on data that descends from a listed known finding is that finding, nothing new -- provided
        # the implementation does there exactly what the model of the defect does (the model mirrors D1: Tier A
        # holds on the line). A line where it does something else again is a different violation and is reported.
        tb2 = []
        ta_lines = {ln for ln, ks in ta}
        tb_lines = {ln for ln, fs in tb}
        repaired = defect_repaired(c, ta_lines, tb_lines) if (ta and tb) else False
        for ln, fs in tb:
            k = known_for_line(prop, c, ln, known)
            if k and ln not in ta_lines: known_hit[k["id"] + " " + k["what"]] += 1
            elif k and repaired: pass   # see defect_repaired: left to the correspondence report
            else: tb2.append((ln, fs))
        # correspondence mismatches count everywhere: where the code leaves the model of the recorded defect without
        # failing the specification (the defect was repaired?) the theorems about the current conversion no longer
        # speak about the code, which is reported as such (no-failing-input-found)
        ta2 = list(ta)
        if ta2: tierA.append((c, ta2, tb2))
        if tb2: tierB.append((c, ta2, tb2))
    return tierA, tierB


def write_replay(prop, tag, case, ta, tb, impl, model, note=""):
    os.makedirs(common.REPLAYS, exist_ok=True)
    path = os.path.join(common.REPLAYS, "%s_%s_%s.json" % (prop, tag, case["id"] if case else "gate"))
    doc = {"property": prop, "kind": tag, "note": note}
    if case:
        doc["case"] = case["lines"]
        doc["case_id"] = case["id"]
        doc["tierA_mismatch"] = [[ln, ks] for ln, ks in ta]
        doc["tierB_failure"] = [[ln, [list(x) for x in fs]] for ln, fs in tb]
        doc["implementation"] = [impl.get((case["id"], ln)) for ln in range(1, len(case["lines"]) + 1)]
        doc["model_and_spec"] = [model.get((case["id"], ln)) for ln in range(1, len(case["lines"]) + 1)]
    with open(path, "w") as fh:
        json.dump(doc, fh, indent=1)
    return path


def check(prop, tier, seed):
    from . import props
    t0 = time.time()
    os.environ["VERIF_TIER_EFFECTIVE"] = tier
    rng = random.Random(seed)
    violations = 0
    lines_out = []

    # builds: model runner and harness (against /repo's working tree)
    with common.build_lock():
        ok, out = common.build_coq(["Model/Prog.vo"])   # the model runner needs the model only, not the proofs
        okd, outd = common.build_driver() if ok else (False, out)
        okh, outh = common.build_harness()
        obligations, discharged, gate_problems, theorems = proof_gate(prop, tier)
    gen = props.GENERATORS[prop](tier, rng)
    cases = gen["cases"]
    if tier == "thorough":
        # a second and a third random stream: the enumerated parts repeat (dropped by their key), the sampled and random parts are new
        seen_keys = {tuple(c["lines"]) for c in cases}
        for extra_seed in (seed + 1, seed + 2):
            more = props.GENERATORS[prop](tier, random.Random(extra_seed))["cases"]
            fresh = [c for c in more if tuple(c["lines"]) not in seen_keys]
            for c in fresh:
                c["id"] = "%ss%d" % (c["id"], extra_seed - seed); c["key"] = "%s/s%d" % (c["key"], extra_seed - seed); seen_keys.add(tuple(c["lines"]))
            cases = cases + fresh
        gen["rule"] += "; thorough: the random and sampled parts are drawn three times (seeds s, s+1, s+2)"
    if prop in props.RENAMED_PROPS:
        # a third of the cases once more under an order-preserving renaming into awkward variable names
        extra = props.renamed_cases(prop, tier, seed)
        cases = cases + extra
        gen["dist"] = dict(gen.get("dist", {})); gen["dist"]["renamed_into_awkward_names"] = len(extra)
        gen["rule"] += "; a third of the cases is run a second time under a random order-preserving renaming of the variables into awkward names (multi-character, numeric-looking, keyword-like, with blanks, non-ASCII, outside the BMP)"

    coverage = {
        "obligations": obligations, "discharged": discharged,
        "checker_cmd": "cd coq && make Properties/%s.vo Pins/Pins_%s.vo && coqc -Q . BBF Properties/%s.v  (Print Assumptions under every theorem)" % (prop, prop, prop),
        "trusted_base": TRUSTED_BASE, "theorems": theorems,
        "rule": gen["rule"],
        # the property quantifies over an unbounded space, which only the theorems cover; the correspondence runs on
        # generated cases and is never exhaustive for it. Whether the generator enumerates a finite SUB-space completely
        # (e.g. every truth function of <= 3 variables) is said in `rule` and flagged separately
        "exhaustive": False, "finite_subspace_enumerated_completely": bool(gen.get("exhaustive")),
        "input_distribution": gen.get("dist", {}),
    }

    if gate_problems or not okd:
        path = write_replay(prop, "proof", None, [], [], {}, {}, note="\n".join(gate_problems + ([] if okd else ["model runner does not build:\n" + outd[-2000:]])))
        print("VIOLATION property=%s replay=%s no-failing-input-found" % (prop, path))
        violations += 1
    if not okh:
        path = write_replay(prop, "build", None, [], [], {}, {}, note="the harness does not build against /repo:\n" + outh[-3000:])
        print("VIOLATION property=%s replay=%s no-failing-input-found" % (prop, path))
        violations += 1
        coverage.update({"evaluations": 0, "distinct_nontrivial": 0, "samples": []})
        common.write_evidence(prop, tier, seed, coverage, time.time() - t0, violations, ["see trusted_base"])
        return 1

    results, impl, model, problems = run_cases(prop, cases, "--twice" if prop == "C20" else "") if okd else ([], {}, {}, [])
    if prop == "C19" and okd:
        with common.build_lock():
            okp, outp = common.build_pymodule()
        if not okp:
            path = write_replay(prop, "build", None, [], [], {}, {}, note="the Python extension module does not build:\n" + outp[-3000:])
            print("VIOLATION property=%s replay=%s no-failing-input-found" % (prop, path)); violations += 1
        else:
            paths = [os.path.join(common.CASES, prop, f) for f in sorted(os.listdir(os.path.join(common.CASES, prop)))]
            py, called, pyproblems = common.run_python(paths)
            byid = {c["id"]: c for c in cases}
            pyfail = []
            for (cid, ln), ppay in py.items():
                why = diff.compare_python(ppay, impl.get((cid, ln)), byid[cid]["lines"][ln - 1], model.get((cid, ln)))
                # no exemption for known findings here: on defective data too the Python call must return what the Rust call returns
                if why: pyfail.append((cid, ln, why))
            missing_lines = [k for k in impl if k not in py]
            methods = common.python_methods()
            uncalled = sorted(m for m in methods if m not in called)
            coverage["python_methods"] = len(methods); coverage["python_methods_called"] = len(methods) - len(uncalled)
            coverage["python_uncalled"] = uncalled; coverage["python_lines_compared"] = len(py)
            kinds_seen = collections.Counter()
            for pay in impl.values():
                for m_ in re.finditer(r"(?:parse=err:|variant=)([A-Za-z]+)", pay): kinds_seen[m_.group(1)] += 1
            coverage["error_kinds_exercised"] = dict(kinds_seen)
            for cid, ln, why in pyfail[:5]:
                path = write_replay(prop, "python", byid[cid], [], [(ln, [("python", w) for w in why])], py, impl)
                print("VIOLATION property=%s replay=%s" % (prop, path))
            violations += len(pyfail)
            if pyproblems or missing_lines or uncalled:
                note = "\n".join(pyproblems + (["%d lines have no Python output" % len(missing_lines)] if missing_lines else []) + (["methods never called: " + ", ".join(uncalled)] if uncalled else []))
                path = write_replay(prop, "python_run", None, [], [], {}, {}, note=note)
                print("VIOLATION property=%s replay=%s no-failing-input-found" % (prop, path)); violations += 1
    if prop == "C20" and okd:
        # the same cases in further separate processes (fresh hash seeds): every observation must be identical
        paths = [os.path.join(common.CASES, prop, f) for f in sorted(os.listdir(os.path.join(common.CASES, prop)))]
        nondet = []
        for rep in range(2 if tier == "quick" else 6):
            again = common.run_impl_only(paths, "--twice")
            for key in impl:
                if again.get(key) != impl[key]:
                    nondet.append((key, impl[key], again.get(key)))
        coverage["process_runs"] = 3 if tier == "quick" else 7
        coverage["scan_interior_mutability"] = scan_interior_mutability()
        if nondet:
            byid = {c["id"]: c for c in cases}
            (cid, ln), a1, a2 = nondet[0]
            path = write_replay(prop, "nondeterminism", byid[cid], [(ln, ["<differs between processes>"])], [(ln, [("det", "two processes disagree: %r vs %r" % (a1, a2))])], impl, model)
            print("VIOLATION property=%s replay=%s" % (prop, path))
            violations += 1
    known = load_known()
    known_hit = collections.Counter()
    tierA, tierB = classify(prop, results, known, known_hit)
    searched = None
    if tierA and not tierB and tier == "quick" and os.environ.get("VERIF_NO_SEARCH") != "1":
        # the correspondence broke and no generated case violates the property: SEARCH for a failing input with the
        # thorough generators and two further random streams before settling for "no-failing-input-found"
        t_search = time.time()
        more = []
        seen_l = {tuple(c["lines"]) for c in cases}
        for k_, sd in enumerate((seed, seed + 1, seed + 2)):
            for c in props.GENERATORS[prop]("thorough", random.Random(sd))["cases"]:
                if tuple(c["lines"]) in seen_l: continue
                seen_l.add(tuple(c["lines"])); c["id"] = "%sx%d" % (c["id"], k_); more.append(c)
        if prop in props.RENAMED_PROPS:
            more += [dict(c, id=c["id"] + "x") for c in props.renamed_cases(prop, "thorough", seed + 1)]
        os.environ["VERIF_TIER_EFFECTIVE"] = "thorough"
        res2, impl2, model2, problems2 = run_cases(prop, more, "--twice" if prop == "C20" else "")
        os.environ["VERIF_TIER_EFFECTIVE"] = "quick"
        tA2, tB2 = classify(prop, res2, known, known_hit)
        searched = {"cases": len(more), "failing_inputs_found": len(tB2), "wall_s": round(time.time() - t_search, 1)}
        if tB2:
            tierB = tB2; impl.update(impl2); model.update(model2)
    coverage_search = searched
    reported = 0
    for c, ta, tb in tierB:
        if reported < 5:
            path = write_replay(prop, "fail", c, ta, tb, impl, model)
            print("VIOLATION property=%s replay=%s" % (prop, path))
        reported += 1
        violations += 1
    for what, n in known_hit.items():
        print("KNOWN-FINDING: property=%s %s (%d observations)" % (prop, what, n))
    if tierA and not tierB:
        # the code no longer does what the model says, and no generated case violates the property
        c, ta, tb = tierA[0]
        path = write_replay(prop, "correspondence", c, ta, tb, impl, model,
                            note="correspondence impl == model broke on %d cases; the theorems %s no longer speak about this code; no case violating the property was found among %d%s%s" % (len(tierA), ", ".join(theorems), len(cases), (" nor among the %d further cases of the search (thorough generators, three random streams)" % searched["cases"]) if searched else "",
                                  "; the mismatching lines work on data of known finding(s) %s: if that defect was repaired in the source, the model of the defect (and its entry in known_findings.json) is what has to change" % ",".join(sorted({k["id"] for c_, ta_, tb_ in tierA for ln_, ks_ in ta_ for k in [known_for_line(prop, c_, ln_, known)] if k})) if any(known_for_line(prop, c_, ln_, known) for c_, ta_, tb_ in tierA for ln_, ks_ in ta_) else ""))
        print("VIOLATION property=%s replay=%s no-failing-input-found" % (prop, path))
        violations += 1
    if problems and not (tierA or tierB):
        path = write_replay(prop, "run", None, [], [], {}, {}, note="\n".join(problems))
        print("VIOLATION property=%s replay=%s no-failing-input-found" % (prop, path))
        violations += 1

    distinct = set(c["key"] for c in cases if c.get("nontrivial"))
    if coverage_search: coverage["search_for_failing_input"] = coverage_search
    coverage.update({
        "evaluations": len(cases), "distinct_nontrivial": len(distinct),
        "samples": [c["lines"][:10] for c in cases[:: max(1, len(cases) // 4)][:4]],
        "tierA_mismatches": len(tierA), "tierB_failures": len(tierB),
        "known_findings_hit": dict(known_hit), "observation_lines": len(impl),
    })
    common.write_evidence(prop, tier, seed, coverage, time.time() - t0, violations,
                          ["the model is tied to the code only on the generated cases", "lib-bdd/regex/csv/tabled are modelled, not verified"])
    if violations == 0:
        print("OK property=%s tier=%s cases=%d nontrivial=%d theorems=%d/%d wall=%.1fs" % (prop, tier, len(cases), len(distinct), discharged, obligations, time.time() - t0))
    return 1 if violations else 0
